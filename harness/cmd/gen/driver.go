package main

// driver.go: a test file derived from the XML alone (field numbers, member lists, type mapping),
// placed next to the generated files: for every field member of every message, of the header, of
// every component used by a message and of every group entry, the setter must put exactly
// "<number>=<value>" on the wire and the getter must return the value; required members must be
// the constructor's arguments, in order.

import (
	"fmt"
	"strings"
)

type driverGen struct {
	d         *XDoc
	cast      map[string]string
	fields    map[string]*XField
	comps     map[string]*XComp
	sb        strings.Builder
	n         int
	needBytes bool
}

func dropNo(n string) string { return strings.Replace(n, "No", "", 1) }

func (g *driverGen) isEnum(f *XField) bool { return len(f.Values) > 0 && g.cast[f.Type] != "Bool" }

// goKind: the Go type the accessor must have according to the XML and the type mapping.
func (g *driverGen) goKind(name string) string {
	f := g.fields[name]
	if f == nil {
		return ""
	}
	if g.isEnum(f) {
		return "string"
	}
	switch g.cast[f.Type] {
	case "Float":
		return "float64"
	case "Int":
		return "int"
	case "Raw":
		return "[]byte"
	case "Bool":
		return "bool"
	case "String":
		return "string"
	case "Time":
		return "time.Time"
	}
	return ""
}

// value literal and its wire form
func (g *driverGen) value(name string) (lit, wire, cmp string) {
	g.n++
	switch g.goKind(name) {
	case "string":
		v := fmt.Sprintf("v%d", g.n)
		return fmt.Sprintf("%q", v), v, "=="
	case "int":
		v := 1000 + g.n
		return fmt.Sprint(v), fmt.Sprint(v), "=="
	case "float64":
		return "12.5", "12.5", "=="
	case "bool":
		return "true", "Y", "=="
	case "[]byte":
		v := fmt.Sprintf("r%d", g.n)
		g.needBytes = true
		return fmt.Sprintf("[]byte(%q)", v), v, "bytes"
	}
	return "", "", ""
}

func (g *driverGen) p(format string, a ...interface{}) { fmt.Fprintf(&g.sb, format+"\n", a...) }

// checkField emits: fresh message, set one field through path, compare getter and wire.
func (g *driverGen) checkField(where, mk, path, fname string) {
	f := g.fields[fname]
	lit, wire, cmp := g.value(fname)
	if f == nil || lit == "" {
		return
	}
	g.p("\t{ // %s: %s", where, fname)
	g.p("\t\tm := %s", mk)
	g.p("\t\tm%s.Set%s(%s)", path, fname, lit)
	if cmp == "bytes" {
		g.p("\t\tif got := m%s.%s(); !bytes.Equal(got, %s) { t.Errorf(\"%s: getter %s returned %%q\", got) }", path, fname, lit, where, fname)
	} else {
		g.p("\t\tif got := m%s.%s(); got != %s { t.Errorf(\"%s: getter %s returned %%v\", got) }", path, fname, lit, where, fname)
	}
	g.p("\t\tonWire(t, %q, m, %q, %q)", where+"."+fname, f.Number, wire)
	g.p("\t}")
}

func (g *driverGen) members(where, mk, path string, ms []*XMember, skipExcluded bool, depth int) {
	for _, m := range ms {
		if skipExcluded && (m.Name == "BeginString" || m.Name == "BodyLength" || m.Name == "MsgType" || m.Name == "CheckSum") {
			continue
		}
		switch m.XMLName.Local {
		case "field":
			g.checkField(where, mk, path, m.Name)
		case "component":
			if c := g.comps[m.Name]; c != nil && depth < 2 {
				g.members(where+"/"+m.Name, mk, path+"."+m.Name+"()", c.Members, true, depth+1)
			}
		}
	}
}

// Driver returns the source of zz_driver_test.go for package pkg.
func Driver(d *XDoc, c *XConfig, pkg string, registry map[string]*XMember) string {
	g := &driverGen{d: d, cast: map[string]string{}, fields: map[string]*XField{}, comps: map[string]*XComp{}}
	for _, t := range c.Types {
		g.cast[t.Name] = t.Cast
	}
	for _, f := range d.Fields {
		g.fields[f.Name] = f
	}
	for _, x := range d.Components {
		g.comps[x.Name] = x
	}
	g.p("func TestZZDriver(t *testing.T) {")
	for _, msg := range d.Messages {
		mk := "New" + msg.Name + "()"
		g.members(msg.Name, mk, "", msg.Members, false, 0)
		g.members(msg.Name+"/Header", mk, ".Header()", d.Header.Members, true, 0)
		// the populating constructor: required members are its arguments, in order
		var args []string
		var checks []string
		ok := true
		for _, m := range msg.Members {
			if m.Required != "Y" {
				continue
			}
			switch m.XMLName.Local {
			case "field":
				lit, wire, _ := g.value(m.Name)
				if lit == "" {
					ok = false
					break
				}
				args = append(args, lit)
				checks = append(checks, fmt.Sprintf("\t\tonWirePart(t, %q, m, %q, %q)", msg.Name+".Create."+m.Name, g.fields[m.Name].Number, wire))
			case "group":
				args = append(args, "New"+dropNo(m.Name)+"Grp()")
			case "component":
				args = append(args, "make"+m.Name+"()")
			}
		}
		if ok {
			g.p("\t{ // %s: populating constructor", msg.Name)
			g.p("\t\tm := Create%s(%s)", msg.Name, strings.Join(args, ", "))
			g.p("\t\t_ = m")
			for _, ch := range checks {
				g.p("%s", ch)
			}
			g.p("\t}")
		}
		// groups directly in the message: one entry with one field set
		for _, m := range msg.Members {
			if m.XMLName.Local != "group" {
				continue
			}
			reg := registry[m.Name]
			if reg == nil || !sameMembers(reg.Members, m.Members) {
				continue // the generated type was built from another occurrence of this group name
			}
			G := dropNo(m.Name)
			for _, em := range reg.Members {
				if em.XMLName.Local != "field" {
					continue
				}
				f := g.fields[em.Name]
				lit, wire, _ := g.value(em.Name)
				cnt := g.fields[m.Name]
				if f == nil || lit == "" || cnt == nil {
					continue
				}
				g.p("\t{ // %s: group %s entry field %s", msg.Name, m.Name, em.Name)
				g.p("\t\tm := New%s()", msg.Name)
				g.p("\t\te := New%sEntry()", G)
				g.p("\t\te.Set%s(%s)", em.Name, lit)
				g.p("\t\tm.%sGrp().AddEntry(e)", G)
				g.p("\t\tgroupOnWire(t, %q, m, %q, %q, %q)", msg.Name+"."+m.Name+"."+em.Name, cnt.Number, f.Number, wire)
				g.p("\t}")
			}
		}
	}
	g.p("}")
	hdr := "package " + pkg + "\n\nimport (\n"
	if g.needBytes {
		hdr += "\t\"bytes\"\n"
	}
	hdr += "\t\"strings\"\n\t\"testing\"\n)\n\n"
	if g.needBytes {
		hdr += "var _ = bytes.Equal\n"
	}
	hdr += `
type wireMsg interface{ ToBytes() ([]byte, error) }

func bodyFields(t *testing.T, where string, m wireMsg) []string {
	b, err := m.ToBytes()
	if err != nil {
		t.Errorf("%s: ToBytes: %v", where, err)
		return nil
	}
	var out []string
	for _, f := range strings.Split(strings.TrimSuffix(string(b), "\x01"), "\x01") {
		if strings.HasPrefix(f, "8=") || strings.HasPrefix(f, "9=") || strings.HasPrefix(f, "35=") || strings.HasPrefix(f, "10=") {
			continue
		}
		out = append(out, f)
	}
	return out
}

// exactly one field besides the framing: <tag>=<value>
func onWire(t *testing.T, where string, m wireMsg, tag, value string) {
	fs := bodyFields(t, where, m)
	if len(fs) != 1 || fs[0] != tag+"="+value {
		t.Errorf("%s: setter should put exactly %s=%s on the wire, got %q", where, tag, value, fs)
	}
}

func onWirePart(t *testing.T, where string, m wireMsg, tag, value string) {
	for _, f := range bodyFields(t, where, m) {
		if f == tag+"="+value {
			return
		}
	}
	t.Errorf("%s: %s=%s is not on the wire", where, tag, value)
}

// the count field with 1, then the entry's field
func groupOnWire(t *testing.T, where string, m wireMsg, cntTag, tag, value string) {
	fs := bodyFields(t, where, m)
	if len(fs) != 2 || fs[0] != cntTag+"=1" || fs[1] != tag+"="+value {
		t.Errorf("%s: expected %s=1 then %s=%s, got %q", where, cntTag, tag, value, fs)
	}
}
`
	return hdr + g.sb.String()
}
