package main

// schema.go: the XML schema read independently of the generator's own structs, the GEN case line
// for the Coq model, and the derivations (removing, reordering, renaming, adding, toggling).

import (
	"encoding/hex"
	"encoding/xml"
	"fmt"
	"os"
	"strings"

	"verifharness/internal/rng"
)

type XMember struct {
	XMLName  xml.Name
	Name     string     `xml:"name,attr"`
	Required string     `xml:"required,attr"`
	Members  []*XMember `xml:",any"`
}

type XComp struct {
	Name    string     `xml:"name,attr"`
	MsgCat  string     `xml:"msgcat,attr"`
	MsgType string     `xml:"msgtype,attr"`
	Members []*XMember `xml:",any"`
}

type XValue struct {
	Enum        string `xml:"enum,attr"`
	Description string `xml:"description,attr"`
}

type XField struct {
	Number string    `xml:"number,attr"`
	Name   string    `xml:"name,attr"`
	Type   string    `xml:"type,attr"`
	Values []*XValue `xml:"value"`
}

type XDoc struct {
	XMLName     xml.Name  `xml:"fix"`
	Type        string    `xml:"type,attr"`
	Major       string    `xml:"major,attr"`
	Minor       string    `xml:"minor,attr"`
	ServicePack string    `xml:"servicepack,attr"`
	Header      *XComp    `xml:"header"`
	Messages    []*XComp  `xml:"messages>message"`
	Trailer     *XComp    `xml:"trailer"`
	Components  []*XComp  `xml:"components>component"`
	Fields      []*XField `xml:"fields>field"`
}

type XType struct {
	Name string `xml:"name,attr"`
	Cast string `xml:"cast,attr"`
}

type XConfig struct {
	XMLName xml.Name `xml:"config"`
	Name    string   `xml:"name,attr"`
	Types   []*XType `xml:"types>type"`
}

func loadDoc(path string) (*XDoc, error) {
	b, err := os.ReadFile(path)
	if err != nil {
		return nil, err
	}
	d := &XDoc{}
	if err := xml.Unmarshal(b, d); err != nil {
		return nil, err
	}
	if d.Header == nil {
		d.Header = &XComp{}
	}
	if d.Trailer == nil {
		d.Trailer = &XComp{}
	}
	return d, nil
}

func loadConfig(path string) (*XConfig, error) {
	b, err := os.ReadFile(path)
	if err != nil {
		return nil, err
	}
	c := &XConfig{}
	if err := xml.Unmarshal(b, c); err != nil {
		return nil, err
	}
	return c, nil
}

func hx(s string) string { return "x" + hex.EncodeToString([]byte(s)) }

func memberLine(sb *strings.Builder, m *XMember) {
	k := "o"
	switch m.XMLName.Local {
	case "field":
		k = "f"
	case "group":
		k = "g"
	case "component":
		k = "c"
	}
	req := "0"
	if m.Required == "Y" {
		req = "1"
	}
	fmt.Fprintf(sb, " %s %s %s %d", k, hx(m.Name), req, len(m.Members))
	for _, s := range m.Members {
		memberLine(sb, s)
	}
}

func compLine(sb *strings.Builder, c *XComp) {
	fmt.Fprintf(sb, " %s %s %d", hx(c.Name), hx(c.MsgType), len(c.Members))
	for _, m := range c.Members {
		memberLine(sb, m)
	}
}

// GenLine is the case line for the model.
func GenLine(d *XDoc, c *XConfig) string {
	var sb strings.Builder
	fmt.Fprintf(&sb, "GEN %s %s %s %d", hx(d.Type), hx(d.Major), hx(d.Minor), len(c.Types))
	for _, t := range c.Types {
		fmt.Fprintf(&sb, " %s %s", hx(t.Name), hx(t.Cast))
	}
	fmt.Fprintf(&sb, " %d", len(d.Fields))
	for _, f := range d.Fields {
		fmt.Fprintf(&sb, " %s %s %s %d", hx(f.Number), hx(f.Name), hx(f.Type), len(f.Values))
		for _, v := range f.Values {
			fmt.Fprintf(&sb, " %s %s", hx(v.Enum), hx(v.Description))
		}
	}
	compLine(&sb, d.Header)
	compLine(&sb, d.Trailer)
	fmt.Fprintf(&sb, " %d", len(d.Messages))
	for _, m := range d.Messages {
		compLine(&sb, m)
	}
	fmt.Fprintf(&sb, " %d", len(d.Components))
	for _, m := range d.Components {
		compLine(&sb, m)
	}
	return sb.String()
}

func writeXML(path string, v interface{}) error {
	b, err := xml.MarshalIndent(v, "", " ")
	if err != nil {
		return err
	}
	return os.WriteFile(path, b, 0o644)
}

func cloneMembers(ms []*XMember) []*XMember {
	out := make([]*XMember, len(ms))
	for i, m := range ms {
		c := *m
		c.Members = cloneMembers(m.Members)
		out[i] = &c
	}
	return out
}

func cloneDoc(d *XDoc) *XDoc {
	n := *d
	cp := func(c *XComp) *XComp { x := *c; x.Members = cloneMembers(c.Members); return &x }
	n.Header = cp(d.Header)
	n.Trailer = cp(d.Trailer)
	n.Messages = nil
	for _, m := range d.Messages {
		n.Messages = append(n.Messages, cp(m))
	}
	n.Components = nil
	for _, m := range d.Components {
		n.Components = append(n.Components, cp(m))
	}
	n.Fields = nil
	for _, f := range d.Fields {
		x := *f
		x.Values = append([]*XValue(nil), f.Values...)
		n.Fields = append(n.Fields, &x)
	}
	return &n
}

func cloneConfig(c *XConfig) *XConfig {
	n := *c
	n.Types = nil
	for _, t := range c.Types {
		x := *t
		n.Types = append(n.Types, &x)
	}
	return &n
}

func renameIn(ms []*XMember, from, to string) {
	for _, m := range ms {
		if m.Name == from {
			m.Name = to
		}
		renameIn(m.Members, from, to)
	}
}

// holders are all member lists that can be edited: messages, components, and the bodies of groups
// whose name occurs once in the schema (the generator keeps one Go type per group name, built from
// the last occurrence -- finding D16; editing one of several occurrences would only produce more
// instances of that finding).
func holders(d *XDoc) []*[]*XMember {
	count := map[string]int{}
	var cnt func(ms []*XMember)
	cnt = func(ms []*XMember) {
		for _, m := range ms {
			if m.XMLName.Local == "group" {
				count[m.Name]++
			}
			cnt(m.Members)
		}
	}
	for _, m := range d.Messages {
		cnt(m.Members)
	}
	for _, c := range d.Components {
		cnt(c.Members)
	}
	cnt(d.Header.Members)
	cnt(d.Trailer.Members)
	var out []*[]*XMember
	var walk func(ms *[]*XMember)
	walk = func(ms *[]*XMember) {
		out = append(out, ms)
		for _, m := range *ms {
			if m.XMLName.Local == "group" && count[m.Name] == 1 {
				walk(&m.Members)
			}
		}
	}
	for _, m := range d.Messages {
		walk(&m.Members)
	}
	for _, c := range d.Components {
		walk(&c.Members)
	}
	return out
}

// Derive applies k random edits; the returned tags say which. malformed adds one edit the
// generator has to reject.
func Derive(base *XDoc, cfg *XConfig, r *rng.R, k int, malformed bool, variant int) (*XDoc, *XConfig, []string) {
	d := cloneDoc(base)
	c := cloneConfig(cfg)
	var tags []string
	fresh := 0
	newField := func(ty string) *XField {
		fresh++
		f := &XField{Number: fmt.Sprint(20000 + r.Intn(9000)*7 + fresh), Name: fmt.Sprintf("Zz%c%dNew", 'A'+rune(r.Intn(26)), fresh), Type: ty}
		for _, e := range d.Fields {
			if e.Number == f.Number {
				f.Number = fmt.Sprint(40000 + fresh)
			}
		}
		d.Fields = append(d.Fields, f)
		return f
	}
	types := []string{"STRING", "INT", "PRICE", "BOOLEAN", "CHAR", "QTY", "SEQNUM", "UTCTIMESTAMP", "DATA"}
	for i := 0; i < k; i++ {
		hs := holders(d)
		h := hs[r.Intn(len(hs))]
		switch r.Intn(14) {
		case 0: // remove a member
			if len(*h) > 1 {
				j := r.Intn(len(*h))
				*h = append((*h)[:j:j], (*h)[j+1:]...)
				tags = append(tags, "remove-member")
			}
		case 1: // reorder
			if len(*h) > 1 {
				a, b := r.Intn(len(*h)), r.Intn(len(*h))
				(*h)[a], (*h)[b] = (*h)[b], (*h)[a]
				tags = append(tags, "reorder")
			}
		case 2: // rename a field everywhere
			f := d.Fields[r.Intn(len(d.Fields))]
			if len(f.Name) > 3 && !strings.Contains("BeginString BodyLength MsgType CheckSum SenderCompID TargetCompID MsgSeqNum SendingTime HeartBtInt EncryptMethod Password Username ResetSeqNumFlag TestReqID BeginSeqNo EndSeqNo NewSeqNo GapFillFlag SessionRejectReason RefSeqNum RefTagID Text PossDupFlag OrigSendingTime RefMsgType NewPassword", f.Name) {
				to := f.Name + "Rn"
				for _, m := range d.Messages {
					renameIn(m.Members, f.Name, to)
				}
				for _, m := range d.Components {
					renameIn(m.Members, f.Name, to)
				}
				renameIn(d.Header.Members, f.Name, to)
				renameIn(d.Trailer.Members, f.Name, to)
				f.Name = to
				tags = append(tags, "rename-field")
			}
		case 3: // add a new field member
			f := newField(types[r.Intn(len(types))])
			req := "N"
			if r.Intn(2) == 0 {
				req = "Y"
			}
			j := r.Intn(len(*h) + 1)
			nm := &XMember{XMLName: xml.Name{Local: "field"}, Name: f.Name, Required: req}
			*h = append((*h)[:j:j], append([]*XMember{nm}, (*h)[j:]...)...)
			tags = append(tags, "add-field")
		case 4: // toggle required
			if len(*h) > 0 {
				m := (*h)[r.Intn(len(*h))]
				if m.Required == "Y" {
					m.Required = "N"
				} else {
					m.Required = "Y"
				}
				tags = append(tags, "toggle-required")
			}
		case 5: // remove a message that the standard pipelines do not need
			if len(d.Messages) > 1 {
				j := r.Intn(len(d.Messages))
				if !strings.Contains("Logon Logout Heartbeat TestRequest ResendRequest SequenceReset Reject ExecutionReport NewOrderSingle MarketDataRequest OrderCancelRequest", d.Messages[j].Name) {
					d.Messages = append(d.Messages[:j:j], d.Messages[j+1:]...)
					tags = append(tags, "remove-message")
				}
			}
		case 6: // add a message
			fresh++
			src := d.Messages[r.Intn(len(d.Messages))]
			nm := &XComp{Name: fmt.Sprintf("ZzMsg%d", fresh), MsgCat: "app", MsgType: fmt.Sprintf("Z%c%d", 'a'+rune(r.Intn(26)), fresh)}
			_, sh := groupRegistry(d)
			for _, m := range cloneMembers(src.Members) {
				clash := false
				for _, x := range sh { // a copy of a group that already has differing occurrences would move "the last occurrence" (D16)
					if strings.HasPrefix(x, m.Name+" in ") {
						clash = true
					}
				}
				if !(m.XMLName.Local == "group" && clash) {
					nm.Members = append(nm.Members, m)
				}
			}
			d.Messages = append(d.Messages, nm)
			tags = append(tags, "add-message")
		case 7: // add a group with new fields
			cnt := newField("NUMINGROUP")
			cnt.Name = "No" + cnt.Name
			g := &XMember{XMLName: xml.Name{Local: "group"}, Name: cnt.Name, Required: "N"}
			for q := 0; q < 1+r.Intn(3); q++ {
				f := newField(types[r.Intn(len(types))])
				g.Members = append(g.Members, &XMember{XMLName: xml.Name{Local: "field"}, Name: f.Name, Required: "N"})
			}
			j := r.Intn(len(*h) + 1)
			*h = append((*h)[:j:j], append([]*XMember{g}, (*h)[j:]...)...)
			tags = append(tags, "add-group")
		case 8: // add a component and use it
			fresh++
			cn := fmt.Sprintf("ZzComp%d", fresh)
			comp := &XComp{Name: cn}
			for q := 0; q < 1+r.Intn(3); q++ {
				f := newField(types[r.Intn(len(types))])
				req := "N"
				if r.Intn(3) == 0 {
					req = "Y"
				}
				comp.Members = append(comp.Members, &XMember{XMLName: xml.Name{Local: "field"}, Name: f.Name, Required: req})
			}
			d.Components = append(d.Components, comp)
			m := d.Messages[r.Intn(len(d.Messages))]
			j := r.Intn(len(m.Members) + 1)
			use := &XMember{XMLName: xml.Name{Local: "component"}, Name: cn, Required: "N"}
			m.Members = append(m.Members[:j:j], append([]*XMember{use}, m.Members[j:]...)...)
			tags = append(tags, "add-component")
		case 9: // change the type mapping of one schema type
			t := c.Types[r.Intn(len(c.Types))]
			if t.Name != "BOOLEAN" && t.Name != "NUMINGROUP" && t.Name != "SEQNUM" && t.Name != "INT" && t.Name != "STRING" && t.Name != "UTCTIMESTAMP" {
				casts := []string{"String", "Int", "Float", "Raw"}
				t.Cast = casts[r.Intn(len(casts))]
				tags = append(tags, "change-cast")
			}
		case 10: // header: add an optional field / reorder optional header members
			if r.Intn(2) == 0 {
				f := newField(types[r.Intn(len(types))])
				j := 3 + r.Intn(len(d.Header.Members)-2)
				nm := &XMember{XMLName: xml.Name{Local: "field"}, Name: f.Name, Required: "N"}
				d.Header.Members = append(d.Header.Members[:j:j], append([]*XMember{nm}, d.Header.Members[j:]...)...)
				tags = append(tags, "header-add")
			} else {
				a, b := r.Intn(len(d.Header.Members)), r.Intn(len(d.Header.Members))
				d.Header.Members[a], d.Header.Members[b] = d.Header.Members[b], d.Header.Members[a]
				tags = append(tags, "header-reorder")
			}
		case 13: // two components that both define a group of one (new) name, with different members:
			// the shape of finding D16, here to see that at least the outcome does not vary from run to run
			fresh++
			cnt := newField("NUMINGROUP")
			cnt.Name = "NoZzTwin" + fmt.Sprint(fresh)
			var names []string
			for q := 0; q < 2; q++ {
				fresh++
				cn := fmt.Sprintf("ZzTwinComp%d", fresh)
				g := &XMember{XMLName: xml.Name{Local: "group"}, Name: cnt.Name, Required: "N"}
				for w := 0; w <= q+r.Intn(2); w++ {
					f := newField(types[r.Intn(len(types))])
					g.Members = append(g.Members, &XMember{XMLName: xml.Name{Local: "field"}, Name: f.Name, Required: "N"})
				}
				d.Components = append(d.Components, &XComp{Name: cn, Members: []*XMember{g}})
				names = append(names, cn)
			}
			m := d.Messages[r.Intn(len(d.Messages))]
			for _, cn := range names {
				m.Members = append(m.Members, &XMember{XMLName: xml.Name{Local: "component"}, Name: cn, Required: "N"})
			}
			tags = append(tags, "twin-groups")
		case 12: // a chain of nested groups, three or four deep
			depth := 3 + r.Intn(2)
			var top, cur *XMember
			for q := 0; q < depth; q++ {
				cnt := newField("NUMINGROUP")
				cnt.Name = "No" + cnt.Name
				g := &XMember{XMLName: xml.Name{Local: "group"}, Name: cnt.Name, Required: "N"}
				f := newField(types[r.Intn(len(types))])
				g.Members = append(g.Members, &XMember{XMLName: xml.Name{Local: "field"}, Name: f.Name, Required: "Y"})
				if top == nil {
					top = g
				} else {
					cur.Members = append(cur.Members, g)
				}
				cur = g
			}
			j := r.Intn(len(*h) + 1)
			*h = append((*h)[:j:j], append([]*XMember{top}, (*h)[j:]...)...)
			tags = append(tags, "add-nested-groups")
		case 11: // trailer: add a field before CheckSum
			f := newField("STRING")
			nm := &XMember{XMLName: xml.Name{Local: "field"}, Name: f.Name, Required: "N"}
			d.Trailer.Members = append([]*XMember{nm}, d.Trailer.Members...)
			tags = append(tags, "trailer-add")
		}
	}
	if malformed {
		pick := func(enum bool) *XField {
			for tries := 0; tries < 400; tries++ {
				f := d.Fields[r.Intn(len(d.Fields))]
				isEnum := len(f.Values) > 0 && f.Type != "BOOLEAN"
				if isEnum == enum {
					return f
				}
			}
			return d.Fields[0]
		}
		switch variant % 13 {
		case 0, 1, 2, 3: // duplicate field number: plain/plain, enum/plain, plain/enum, enum/enum
			a, b := pick(variant&1 == 1), pick(variant&2 == 2)
			if a != b {
				b.Number = a.Number
			}
			tags = append(tags, fmt.Sprintf("bad:dup-number:%d", variant%4))
		case 4:
			if len(d.Messages) > 1 {
				d.Messages[len(d.Messages)-1].MsgType = d.Messages[0].MsgType
			}
			tags = append(tags, "bad:dup-msgtype")
		case 5:
			m := d.Messages[r.Intn(len(d.Messages))]
			m.Members = append(m.Members, &XMember{XMLName: xml.Name{Local: "field"}, Name: "NoSuchFieldAnywhere", Required: "N"})
			tags = append(tags, "bad:unknown-field")
		case 6:
			c.Types[r.Intn(len(c.Types))].Cast = "Decimal"
			tags = append(tags, "bad:unknown-cast")
		case 7:
			for i, m := range d.Header.Members {
				if m.Name == "SendingTime" {
					d.Header.Members = append(d.Header.Members[:i:i], d.Header.Members[i+1:]...)
					break
				}
			}
			tags = append(tags, "bad:header-missing-required")
		case 8:
			f := d.Fields[r.Intn(len(d.Fields))]
			f.Type = "NOSUCHTYPE"
			m := d.Messages[0]
			m.Members = append(m.Members, &XMember{XMLName: xml.Name{Local: "field"}, Name: f.Name, Required: "N"})
			tags = append(tags, "bad:unknown-type")
		case 9: // a pipeline message without a member its builder needs
			for _, m := range d.Messages {
				if m.Name == "Logon" {
					for i, x := range m.Members {
						if x.Name == "HeartBtInt" {
							m.Members = append(m.Members[:i:i], m.Members[i+1:]...)
							break
						}
					}
				}
			}
			tags = append(tags, "bad:pipeline-member-missing")
		case 10: // a nested group without members
			m := d.Messages[r.Intn(len(d.Messages))]
			cnt := newField("NUMINGROUP")
			cnt.Name = "No" + cnt.Name
			inner := &XMember{XMLName: xml.Name{Local: "group"}, Name: cnt.Name, Required: "N"}
			cnt2 := newField("NUMINGROUP")
			cnt2.Name = "No" + cnt2.Name
			f := newField("STRING")
			outer := &XMember{XMLName: xml.Name{Local: "group"}, Name: cnt2.Name, Required: "N",
				Members: []*XMember{{XMLName: xml.Name{Local: "field"}, Name: f.Name, Required: "N"}, inner}}
			m.Members = append(m.Members, outer)
			tags = append(tags, "bad:empty-nested-group")
		case 11: // a member that is neither field, group nor component
			m := d.Messages[r.Intn(len(d.Messages))]
			m.Members = append(m.Members, &XMember{XMLName: xml.Name{Local: "block"}, Name: "Whatever", Required: "N"})
			tags = append(tags, "bad:unknown-member-kind")
		case 12: // trailer without CheckSum
			var keep []*XMember
			for _, m := range d.Trailer.Members {
				if m.Name != "CheckSum" {
					keep = append(keep, m)
				}
			}
			d.Trailer.Members = keep
			tags = append(tags, "bad:trailer-missing-checksum")
		}
	}
	return d, c, tags
}
