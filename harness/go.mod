module verifharness

go 1.18

require github.com/b2broker/simplefix-go v0.0.0

require golang.org/x/sync v0.0.0-20210220032951-036812b2e83c // indirect

replace github.com/b2broker/simplefix-go => /repo
