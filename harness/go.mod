module verifharness

go 1.18

require github.com/b2broker/simplefix-go v0.0.0

replace github.com/b2broker/simplefix-go => /repo
