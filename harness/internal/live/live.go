// Package live runs a real session (Acceptor or Initiator side of the library, with
// session.Session, DefaultHandler and memory.Storage) against a scripted peer over an in-memory
// full-duplex connection, and records what reaches the peer with arrival times.
package live

import (
	"bytes"
	"context"
	"fmt"
	"io"
	"net"
	"strconv"
	"sync"
	"sync/atomic"
	"time"

	simplefixgo "github.com/b2broker/simplefix-go"
	"github.com/b2broker/simplefix-go/session"
	"github.com/b2broker/simplefix-go/session/messages"
	"github.com/b2broker/simplefix-go/storages/memory"
	fixgen "github.com/b2broker/simplefix-go/tests/fix44"
	"github.com/b2broker/simplefix-go/utils"
)

type Msg struct {
	At   time.Time
	Raw  []byte
	Type string
	Seq  int
}

func Field(raw []byte, tag string) (string, bool) {
	for _, seg := range bytes.Split(raw, []byte{1}) {
		if bytes.HasPrefix(seg, []byte(tag+"=")) {
			return string(seg[len(tag)+1:]), true
		}
	}
	return "", false
}

type oneListener struct {
	c      chan net.Conn
	closed chan struct{}
	once   sync.Once
}

func (l *oneListener) Accept() (net.Conn, error) {
	select {
	case c := <-l.c:
		return c, nil
	case <-l.closed:
		return nil, io.EOF
	}
}
func (l *oneListener) Close() error   { l.once.Do(func() { close(l.closed) }); return nil }
func (l *oneListener) Addr() net.Addr { return &net.TCPAddr{} }

var Opts = session.Opts{
	MessageBuilders: session.MessageBuilders{
		HeaderBuilder:        fixgen.Header{}.New(),
		TrailerBuilder:       fixgen.Trailer{}.New(),
		LogonBuilder:         fixgen.Logon{}.New(),
		LogoutBuilder:        fixgen.Logout{}.New(),
		RejectBuilder:        fixgen.Reject{}.New(),
		HeartbeatBuilder:     fixgen.Heartbeat{}.New(),
		TestRequestBuilder:   fixgen.TestRequest{}.New(),
		ResendRequestBuilder: fixgen.ResendRequest{}.New(),
		SequenceResetBuilder: fixgen.SequenceReset{}.New(), // optional; tells the session what a SequenceReset is
	},
	Tags:                    &messages.Tags{MsgType: 35, MsgSeqNum: 34, HeartBtInt: 108, EncryptedMethod: 98},
	AllowedEncryptedMethods: map[string]struct{}{"0": {}},
	SessionErrorCodes: &messages.SessionErrorCodes{IncorrectValue: 5, Other: 99, RequiredTagMissing: 1, UndefinedTag: 3,
		TagSpecialWithoutValue: 4, IncorrectDataFormatValue: 6, DecryptionProblem: 7, SignatureProblem: 8, CompIDProblem: 9},
}

// Config of one live session.
type Config struct {
	Role         string // "A" acceptor, "I" initiator
	Hb           int    // heartbeat interval (initiator: configured; acceptor: whatever the peer's Logon says)
	Buf          int    // channel buffer size
	CloseTimeout time.Duration
	ZeroClose    bool                   // CloseTimeout really is zero (otherwise zero means the default of 5 s)
	Counter      session.CounterStorage // optional instrumented stores
	Messages     session.MessageStorage
	WriteTimeout time.Duration
}

type Live struct {
	Cfg       Config
	Sess      *session.Session
	H         *simplefixgo.DefaultHandler
	Peer      net.Conn
	Served    chan error // the serving call returned
	Acc       *simplefixgo.Acceptor
	Ini       *simplefixgo.Initiator
	Store     *memory.Storage
	mu        sync.Mutex
	Log       []Msg
	In        chan Msg
	EOF       chan struct{} // the peer end saw end of stream
	Events    chan string
	peerSeq   int
	ready     chan struct{}
	pause     chan struct{} // closed = the peer has stopped reading
	pauseMu   sync.Mutex
	readDelay int64 // nanoseconds the peer waits before each read (atomic)
}

// SlowReads makes the scripted peer wait d before every read.
func (l *Live) SlowReads(d time.Duration) { atomic.StoreInt64(&l.readDelay, int64(d)) }

// StopReading makes the scripted peer stop reading from the connection (the session's writes then
// hit their deadline).
func (l *Live) StopReading() {
	l.pauseMu.Lock()
	defer l.pauseMu.Unlock()
	select {
	case <-l.pause:
	default:
		close(l.pause)
	}
}

// Start wires the session up and starts serving; the returned Live is the scripted peer's view.
func Start(cfg Config) (*Live, error) {
	if cfg.WriteTimeout == 0 {
		cfg.WriteTimeout = 5 * time.Second
	}
	if cfg.CloseTimeout == 0 && !cfg.ZeroClose {
		cfg.CloseTimeout = 5 * time.Second
	}
	l := &Live{Cfg: cfg, Served: make(chan error, 1), In: make(chan Msg, 100000), EOF: make(chan struct{}),
		Events: make(chan string, 1000), ready: make(chan struct{}), pause: make(chan struct{})}
	libEnd, peerEnd := net.Pipe()
	l.Peer = peerEnd
	l.Store = memory.NewStorage()
	var cs session.CounterStorage = l.Store
	var ms session.MessageStorage = l.Store
	if cfg.Counter != nil {
		cs = cfg.Counter
	}
	if cfg.Messages != nil {
		ms = cfg.Messages
	}
	o := Opts
	var setupErr error
	if cfg.Role == "A" {
		lst := &oneListener{c: make(chan net.Conn, 1), closed: make(chan struct{})}
		factory := simplefixgo.NewAcceptorHandlerFactory("35", cfg.Buf)
		l.Acc = simplefixgo.NewAcceptor(lst, factory, cfg.WriteTimeout, func(h simplefixgo.AcceptorHandler) {
			l.H = h.(*simplefixgo.DefaultHandler)
			s, err := session.NewAcceptorSession(&o, h, &session.LogonSettings{
				LogonTimeout: 30 * time.Second, CloseTimeout: cfg.CloseTimeout,
				HeartBtLimits: &session.IntLimits{Min: 1, Max: 60}},
				func(*session.LogonSettings) error { return nil }, cs, ms)
			if err != nil {
				setupErr = err
				close(l.ready)
				return
			}
			l.Sess = s
			l.hook()
			setupErr = s.Run()
			close(l.ready)
		})
		go func() { l.Served <- l.Acc.ListenAndServe() }()
		lst.c <- libEnd
	} else {
		l.H = simplefixgo.NewInitiatorHandler(context.Background(), "35", cfg.Buf)
		l.Ini = simplefixgo.NewInitiator(libEnd, l.H, cfg.Buf, cfg.WriteTimeout)
		s, err := session.NewInitiatorSession(l.H, &o, &session.LogonSettings{TargetCompID: "Server", SenderCompID: "Client",
			HeartBtInt: cfg.Hb, EncryptMethod: "0", Username: "u", Password: "p", CloseTimeout: cfg.CloseTimeout}, cs, ms)
		if err != nil {
			return nil, err
		}
		l.Sess = s
		l.hook()
		go l.readPeer()                           // Run sends the Logon at once: somebody must be reading
		go func() { l.Served <- l.Ini.Serve() }() // and the writer loop must be draining (buffer size 0)
		if err := s.Run(); err != nil {
			return nil, err
		}
		close(l.ready)
		return l, nil
	}
	go l.readPeer()
	select {
	case <-l.ready:
	case <-time.After(3 * time.Second):
		return nil, fmt.Errorf("session setup timed out")
	}
	return l, setupErr
}

func (l *Live) hook() {
	for ev, name := range map[utils.Event]string{utils.EventLogon: "logon", utils.EventLogout: "logout", utils.EventDisconnect: "disconnect", utils.EventRequest: "request"} {
		name := name
		l.Sess.OnChangeState(ev, func() bool {
			select {
			case l.Events <- name:
			default:
			}
			return true
		})
	}
	l.H.OnDisconnect(func() bool {
		select {
		case l.Events <- "h-disconnect":
		default:
		}
		return true
	})
	l.H.OnStopped(func() bool {
		select {
		case l.Events <- "h-stopped":
		default:
		}
		return true
	})
}

// readPeer splits the byte stream arriving at the peer into messages, independently of the library.
func (l *Live) readPeer() {
	defer close(l.EOF)
	var acc []byte
	buf := make([]byte, 65536)
	for {
		select {
		case <-l.pause:
			return // the peer does not read any more; EOF is reported so that waiters do not hang
		default:
		}
		if d := atomic.LoadInt64(&l.readDelay); d > 0 {
			time.Sleep(time.Duration(d)) // a slow reader: the session's outbound buffer backs up
		}
		n, err := l.Peer.Read(buf)
		now := time.Now()
		acc = append(acc, buf[:n]...)
		for {
			i := bytes.Index(acc, []byte("\x0110="))
			if i < 0 {
				break
			}
			j := bytes.IndexByte(acc[i+1:], 1)
			if j < 0 {
				break
			}
			end := i + 1 + j + 1
			raw := append([]byte{}, acc[:end]...)
			acc = acc[end:]
			m := Msg{At: now, Raw: raw}
			m.Type, _ = Field(raw, "35")
			if s, ok := Field(raw, "34"); ok {
				m.Seq, _ = strconv.Atoi(s)
			}
			l.mu.Lock()
			l.Log = append(l.Log, m)
			l.mu.Unlock()
			select {
			case l.In <- m:
			default:
			}
		}
		if err != nil {
			return
		}
	}
}

func Frame(body string) []byte {
	head := "8=FIX.4.4\x019=" + strconv.Itoa(len(body)) + "\x01"
	pre := head + body
	sum := 0
	for i := 0; i < len(pre); i++ {
		sum += int(pre[i])
	}
	return []byte(pre + fmt.Sprintf("10=%03d\x01", sum%256))
}

// PeerMsg builds a message of the scripted peer with the next sequence number.
func (l *Live) PeerMsg(mt string, body string) []byte {
	l.peerSeq++
	snd, tgt := "Client", "Server"
	if l.Cfg.Role == "I" {
		snd, tgt = "Server", "Client"
	}
	return Frame("35=" + mt + "\x0149=" + snd + "\x0156=" + tgt + "\x0134=" + strconv.Itoa(l.peerSeq) +
		"\x0152=" + time.Now().UTC().Format("20060102-15:04:05.000") + "\x01" + body)
}

func (l *Live) Send(raw []byte) error {
	_ = l.Peer.SetWriteDeadline(time.Now().Add(2 * time.Second))
	_, err := l.Peer.Write(raw)
	return err
}

// Logon performs the scripted peer's side of the logon exchange; returns false if no Logon came back.
func (l *Live) Logon(hb int) bool {
	if l.Cfg.Role == "I" {
		// wait for the initiator's Logon, then answer
		if _, ok := l.WaitType("A", 2*time.Second); !ok {
			return false
		}
		_ = l.Send(l.PeerMsg("A", "98=0\x01108="+strconv.Itoa(hb)+"\x01"))
		return l.WaitEvent("logon", 2*time.Second)
	}
	_ = l.Send(l.PeerMsg("A", "98=0\x01108="+strconv.Itoa(hb)+"\x01"))
	_, ok := l.WaitType("A", 2*time.Second)
	return ok
}

// Relogon ends the current logon with a Logout exchange started by the peer and logs on again on the
// same session (accepting side only: an accepting session waits for the next Logon after a Logout).
func (l *Live) Relogon(hb int) bool {
	if l.Cfg.Role != "A" {
		return false
	}
	_ = l.Send(l.PeerMsg("5", ""))
	if _, ok := l.WaitType("5", 2*time.Second); !ok {
		return false
	}
	_ = l.Send(l.PeerMsg("A", "98=0\x01108="+strconv.Itoa(hb)+"\x01"))
	_, ok := l.WaitType("A", 2*time.Second)
	return ok
}

func (l *Live) WaitType(mt string, d time.Duration) (Msg, bool) {
	deadline := time.After(d)
	for {
		select {
		case m := <-l.In:
			if m.Type == mt {
				return m, true
			}
		case <-deadline:
			return Msg{}, false
		case <-l.EOF:
			return Msg{}, false
		}
	}
}

func (l *Live) WaitEvent(name string, d time.Duration) bool {
	deadline := time.After(d)
	for {
		select {
		case e := <-l.Events:
			if e == name {
				return true
			}
		case <-deadline:
			return false
		}
	}
}

func (l *Live) Snapshot() []Msg {
	l.mu.Lock()
	defer l.mu.Unlock()
	return append([]Msg{}, l.Log...)
}

// Shutdown ends everything.
func (l *Live) Shutdown() {
	if l.Acc != nil {
		l.Acc.Close()
	}
	if l.Ini != nil {
		l.Ini.Close()
	}
	if l.H != nil {
		l.H.Stop()
	}
	_ = l.Peer.Close()
}
