// Package desc holds case descriptions (message templates with their
// population), their rendering in the line protocol of coq/Proto.v, their
// construction as real fix.Message objects and the observable projection
// of such objects.
package desc

import (
	"encoding/hex"
	"fmt"
	"strconv"
	"strings"
	"time"

	"github.com/b2broker/simplefix-go/fix"
)

// Val describes one field value.
type Val struct {
	Kind  byte   // 'S','I','U','F','T','B','R'
	Valid bool   // populated
	S     []byte // String content / Raw content
	I     int64
	U     uint64
	F     float64
	Src   []byte // Float: text kept from a parse (nil = none)
	Tm    time.Time
	B     bool
	Nil   bool   // Raw: nil slice
	Route string // how the harness populates it: "new", "set", "parse", "" (unpopulated)
}

type Item struct {
	Kind    byte // 'K','G','C'
	Tag     string
	V       *Val
	Tpl     []*Item   // group template
	Entries [][]*Item // group entries
	Items   []*Item   // component members
}

type Msg struct {
	BsTag, BlTag, CsTag, MtTag string
	Bs, Mt                     string
	Header, Body, Trailer      []*Item
}

func Hex(b []byte) string { return "x" + hex.EncodeToString(b) }
func HexOpt(b []byte) string {
	if b == nil {
		return "-"
	}
	return Hex(b)
}

func b01(b bool) string {
	if b {
		return "1"
	}
	return "0"
}

// FloatText is Go's canonical text of a float value as the library prints it.
func FloatText(f float64) []byte { return []byte(strconv.FormatFloat(f, 'f', -1, 64)) }

// TimeText is the library's canonical text of a time value.
func TimeText(t time.Time) []byte { return []byte(t.Format(fix.TimeLayout)) }

// Enc renders the value in protocol form (what the model reads).
func (v *Val) Enc() string {
	switch v.Kind {
	case 'S':
		return "S " + b01(v.Valid) + " " + Hex(v.S)
	case 'I':
		return "I " + b01(v.Valid) + " " + strconv.FormatInt(v.I, 10)
	case 'U':
		return "U " + b01(v.Valid) + " " + strconv.FormatUint(v.U, 10)
	case 'F':
		return "F " + b01(v.Valid) + " " + HexOpt(v.Src) + " " + Hex(FloatText(v.F))
	case 'T':
		return "T " + b01(v.Valid) + " " + Hex(TimeText(v.Tm))
	case 'B':
		return "B " + b01(v.Valid) + " " + b01(v.B)
	case 'R':
		if v.Nil {
			return "R -"
		}
		return "R " + Hex(v.S)
	}
	panic("bad kind")
}

func encItems(sb *strings.Builder, items []*Item) {
	sb.WriteString(strconv.Itoa(len(items)))
	for _, it := range items {
		sb.WriteByte(' ')
		it.enc(sb)
	}
}

func (it *Item) enc(sb *strings.Builder) {
	switch it.Kind {
	case 'K':
		sb.WriteString("K " + Hex([]byte(it.Tag)) + " " + it.V.Enc())
	case 'C':
		sb.WriteString("C ")
		encItems(sb, it.Items)
	case 'G':
		sb.WriteString("G " + Hex([]byte(it.Tag)) + " ")
		encItems(sb, it.Tpl)
		sb.WriteString(" " + strconv.Itoa(len(it.Entries)))
		for _, e := range it.Entries {
			sb.WriteByte(' ')
			encItems(sb, e)
		}
	}
}

// EncItems renders "n item*" for a bare item list.
func EncItems(items []*Item) string {
	var sb strings.Builder
	encItems(&sb, items)
	return sb.String()
}

// Enc renders "M bsTag blTag csTag mtTag bs mt header body trailer".
func (m *Msg) Enc() string {
	var sb strings.Builder
	sb.WriteString("M " + Hex([]byte(m.BsTag)) + " " + Hex([]byte(m.BlTag)) + " " + Hex([]byte(m.CsTag)) + " " + Hex([]byte(m.MtTag)))
	sb.WriteString(" S 1 " + Hex([]byte(m.Bs)) + " S 1 " + Hex([]byte(m.Mt)) + " ")
	encItems(&sb, m.Header)
	sb.WriteByte(' ')
	encItems(&sb, m.Body)
	sb.WriteByte(' ')
	encItems(&sb, m.Trailer)
	return sb.String()
}

// rejectTick picks which unpopulated values are offered a wrongly typed argument.
var rejectTick int

// BuildVal constructs the library value through the described route. A value that is to stay
// unpopulated is, one time in three, first offered a Set with an argument of the wrong type: the call
// is refused and the value is as unpopulated as before.
func (v *Val) BuildVal() fix.Value {
	x := v.buildVal()
	if !v.Valid && v.Route == "" && v.Kind != 'R' {
		rejectTick++
		if rejectTick%3 == 0 {
			var wrong interface{}
			switch v.Kind {
			case 'I':
				wrong = []interface{}{int64(100), uint64(7), "12"}[rejectTick%9/3]
			case 'U':
				wrong = []interface{}{int(3), int64(3), "3"}[rejectTick%9/3]
			case 'F':
				wrong = []interface{}{"1.5", int(2), float32(1.5)}[rejectTick%9/3]
			case 'S':
				wrong = []interface{}{5, []byte("x"), true}[rejectTick%9/3]
			case 'B':
				wrong = []interface{}{"Y", 1, []byte("N")}[rejectTick%9/3]
			case 'T':
				wrong = []interface{}{"20200101-00:00:00.000", int64(0), 1.5}[rejectTick%9/3]
			}
			if wrong != nil {
				_ = x.Set(wrong)
			}
		}
	}
	return x
}

func (v *Val) buildVal() fix.Value {
	switch v.Kind {
	case 'S':
		switch v.Route {
		case "new":
			return fix.NewString(string(v.S))
		case "set":
			x := &fix.String{}
			_ = x.Set(string(v.S))
			return x
		case "parse":
			x := &fix.String{}
			_ = x.FromBytes(v.S)
			return x
		}
		return &fix.String{}
	case 'I':
		switch v.Route {
		case "new":
			return fix.NewInt(int(v.I))
		case "set":
			x := &fix.Int{}
			_ = x.Set(int(v.I))
			return x
		case "parse":
			x := &fix.Int{}
			_ = x.FromBytes([]byte(strconv.FormatInt(v.I, 10)))
			return x
		}
		return &fix.Int{}
	case 'U':
		switch v.Route {
		case "new":
			return fix.NewUint(v.U)
		case "set":
			x := &fix.Uint{}
			_ = x.Set(v.U)
			return x
		case "parse":
			x := &fix.Uint{}
			_ = x.FromBytes([]byte(strconv.FormatUint(v.U, 10)))
			return x
		}
		return &fix.Uint{}
	case 'F':
		switch v.Route {
		case "new":
			return fix.NewFloat(v.F)
		case "set":
			x := &fix.Float{}
			_ = x.Set(v.F)
			return x
		case "parse":
			x := &fix.Float{}
			_ = x.FromBytes(v.Src)
			return x
		case "parseset": // parsed something else first, then Set
			x := &fix.Float{}
			_ = x.FromBytes([]byte("123.5"))
			_ = x.Set(v.F)
			return x
		}
		return &fix.Float{}
	case 'T':
		switch v.Route {
		case "new":
			return fix.NewTime(v.Tm)
		case "set":
			x := &fix.Time{}
			_ = x.Set(v.Tm)
			return x
		case "parse":
			x := &fix.Time{}
			_ = x.FromBytes(TimeText(v.Tm))
			return x
		}
		return &fix.Time{}
	case 'B':
		switch v.Route {
		case "set", "new":
			x := &fix.Bool{}
			_ = x.Set(v.B)
			return x
		case "parse":
			x := &fix.Bool{}
			if v.B {
				_ = x.FromBytes([]byte("Y"))
			} else {
				_ = x.FromBytes([]byte("N"))
			}
			return x
		}
		return &fix.Bool{}
	case 'R':
		if v.Nil {
			return fix.NewRaw(nil)
		}
		switch v.Route {
		case "set":
			x := fix.NewRaw(nil)
			_ = x.Set(v.S)
			return x
		case "parse":
			x := fix.NewRaw(nil)
			_ = x.FromBytes(v.S)
			return x
		}
		return fix.NewRaw(v.S)
	}
	panic("bad kind")
}

func BuildItems(items []*Item) []fix.Item {
	out := make([]fix.Item, len(items))
	for i, it := range items {
		out[i] = it.Build()
	}
	return out
}

func (it *Item) Build() fix.Item {
	switch it.Kind {
	case 'K':
		return fix.NewKeyValue(it.Tag, it.V.BuildVal())
	case 'C':
		return fix.NewComponent(BuildItems(it.Items)...)
	case 'G':
		g := fix.NewGroup(it.Tag, BuildItems(it.Tpl)...)
		for _, e := range it.Entries {
			g.AddEntry(BuildItems(e))
		}
		return g
	}
	panic("bad kind")
}

// ---- the same objects built the way an application builds group entries from the group's own
// template: g.AsTemplate() gives a fresh entry, the values are set on it, AddEntry appends it ----

func hasGroup(items []*Item) bool {
	for _, it := range items {
		if it.Kind == 'G' || (it.Kind == 'C' && hasGroup(it.Items)) {
			return true
		}
	}
	return false
}

// HasGroup reports whether the message contains a repeating group with at least one entry.
func (m *Msg) HasGroup() bool {
	var any func(items []*Item) bool
	any = func(items []*Item) bool {
		for _, it := range items {
			if it.Kind == 'G' && len(it.Entries) > 0 {
				return true
			}
			if it.Kind == 'C' && any(it.Items) {
				return true
			}
		}
		return false
	}
	return any(m.Header) || any(m.Body) || any(m.Trailer)
}

// fill sets the described values on items that came from AsTemplate(); false if the shapes differ.
func fill(items fix.Items, ds []*Item) bool {
	if len(items) != len(ds) {
		return false
	}
	for i, d := range ds {
		switch d.Kind {
		case 'K':
			kv, ok := items[i].(*fix.KeyValue)
			if !ok || kv.Key != d.Tag {
				return false
			}
			kv.Set(d.V.BuildVal())
		case 'C':
			c, ok := items[i].(*fix.Component)
			if !ok || !fill(c.Items(), d.Items) {
				return false
			}
		case 'G':
			g, ok := items[i].(*fix.Group)
			if !ok {
				return false
			}
			for _, e := range d.Entries {
				ne := g.AsTemplate()
				if !fill(ne, e) {
					return false
				}
				g.AddEntry(ne)
			}
		}
	}
	return true
}

func buildItemsVia(items []*Item) ([]fix.Item, bool) {
	out := make([]fix.Item, len(items))
	for i, it := range items {
		switch it.Kind {
		case 'G':
			g := fix.NewGroup(it.Tag, BuildItems(it.Tpl)...)
			for _, e := range it.Entries {
				ne := g.AsTemplate()
				if !fill(ne, e) {
					return nil, false
				}
				g.AddEntry(ne)
			}
			out[i] = g
		case 'C':
			sub, ok := buildItemsVia(it.Items)
			if !ok {
				return nil, false
			}
			out[i] = fix.NewComponent(sub...)
		default:
			out[i] = it.Build()
		}
	}
	return out, true
}

// BuildViaTemplates builds the message with every group entry obtained from AsTemplate();
// nil when an entry does not have the shape of its group's template.
func (m *Msg) BuildViaTemplates() *fix.Message {
	h, ok1 := buildItemsVia(m.Header)
	b, ok2 := buildItemsVia(m.Body)
	t, ok3 := buildItemsVia(m.Trailer)
	if !(ok1 && ok2 && ok3) {
		return nil
	}
	return fix.NewMessage(m.BsTag, m.BlTag, m.CsTag, m.MtTag, m.Bs, m.Mt).
		SetHeader(fix.NewComponent(h...)).
		SetBody(b...).
		SetTrailer(fix.NewComponent(t...))
}

func (m *Msg) Build() *fix.Message {
	return fix.NewMessage(m.BsTag, m.BlTag, m.CsTag, m.MtTag, m.Bs, m.Mt).
		SetHeader(fix.NewComponent(BuildItems(m.Header)...)).
		SetBody(BuildItems(m.Body)...).
		SetTrailer(fix.NewComponent(BuildItems(m.Trailer)...))
}

// ---- projection of real objects (what Proto.v's pr_message prints) ----

func typeLetter(v fix.Value) string {
	switch v.(type) {
	case *fix.String:
		return "S"
	case *fix.Int:
		return "I"
	case *fix.Uint:
		return "U"
	case *fix.Float:
		return "F"
	case *fix.Time:
		return "T"
	case *fix.Bool:
		return "B"
	case *fix.Raw:
		return "R"
	}
	return "?"
}

func ProjKV(kv *fix.KeyValue) string {
	return "K " + Hex([]byte(kv.Key)) + " " + typeLetter(kv.Value) + " " + b01(kv.Value.IsNull()) + " " + HexOpt(kv.Value.ToBytes())
}

func ProjItem(it fix.Item) string {
	switch x := it.(type) {
	case *fix.KeyValue:
		return ProjKV(x)
	case *fix.Component:
		return "C " + ProjItems(x.Items())
	case *fix.Group:
		s := "G " + Hex([]byte(x.NoTag())) + " " + strconv.Itoa(len(x.Entries()))
		for _, e := range x.Entries() {
			s += " " + ProjItems(e)
		}
		return s
	}
	return fmt.Sprintf("?%T", it)
}

func ProjItems(items fix.Items) string {
	s := strconv.Itoa(len(items))
	for _, it := range items {
		s += " " + ProjItem(it)
	}
	return s
}

// ProjMsg prints "M bs bl mt cs header body trailer".
func ProjMsg(m *fix.Message) string {
	items := m.Items()
	n := len(items)
	bs := items[0].(*fix.KeyValue)
	bl := items[1].(*fix.KeyValue)
	mt := items[2].(*fix.KeyValue)
	hd := items[3].(*fix.Component)
	body := items[4 : n-2]
	tr := items[n-2].(*fix.Component)
	cs := items[n-1].(*fix.KeyValue)
	return "M " + ProjKV(bs) + " " + ProjKV(bl) + " " + ProjKV(mt) + " " + ProjKV(cs) + " " +
		ProjItems(hd.Items()) + " " + ProjItems(body) + " " + ProjItems(tr.Items())
}

// Template returns a copy of the items with every value unpopulated and no group entries.
func Template(items []*Item) []*Item {
	out := make([]*Item, len(items))
	for i, it := range items {
		switch it.Kind {
		case 'K':
			out[i] = &Item{Kind: 'K', Tag: it.Tag, V: &Val{Kind: it.V.Kind, Nil: true}}
		case 'C':
			out[i] = &Item{Kind: 'C', Items: Template(it.Items)}
		case 'G':
			out[i] = &Item{Kind: 'G', Tag: it.Tag, Tpl: Template(it.Tpl)}
		}
	}
	return out
}

// TemplateMsg is the empty message of the same type.
func (m *Msg) TemplateMsg() *Msg {
	return &Msg{BsTag: m.BsTag, BlTag: m.BlTag, CsTag: m.CsTag, MtTag: m.MtTag, Bs: m.Bs, Mt: m.Mt,
		Header: Template(m.Header), Body: Template(m.Body), Trailer: Template(m.Trailer)}
}

// ---------- neutral twins (C18): the same message without the text that could be taken for a tag ----------

func cloneVal(v *Val) *Val {
	if v == nil {
		return nil
	}
	c := *v
	c.S = append([]byte(nil), v.S...)
	if v.S == nil {
		c.S = nil
	}
	c.Src = append([]byte(nil), v.Src...)
	if v.Src == nil {
		c.Src = nil
	}
	return &c
}

func cloneItems(items []*Item) []*Item {
	out := make([]*Item, len(items))
	for i, it := range items {
		c := &Item{Kind: it.Kind, Tag: it.Tag, V: cloneVal(it.V), Tpl: cloneItems(it.Tpl), Items: cloneItems(it.Items)}
		for _, e := range it.Entries {
			c.Entries = append(c.Entries, cloneItems(e))
		}
		out[i] = c
	}
	return out
}

// Clone is a deep copy.
func (m *Msg) Clone() *Msg {
	c := *m
	c.Header, c.Body, c.Trailer = cloneItems(m.Header), cloneItems(m.Body), cloneItems(m.Trailer)
	return &c
}

func walk(items []*Item, first bool, f func(it *Item, firstOfEntry bool)) {
	for i, it := range items {
		f(it, first && i == 0)
		switch it.Kind {
		case 'C':
			walk(it.Items, first && i == 0, f)
		case 'G':
			for _, e := range it.Entries {
				walk(e, true, f)
			}
		}
	}
}

// Walk visits every item of the message (entries included); firstOfEntry marks the item a group
// entry starts with (the delimiter field, which has to stay populated).
func (m *Msg) Walk(f func(it *Item, firstOfEntry bool)) {
	walk(m.Header, false, f)
	walk(m.Body, false, f)
	walk(m.Trailer, false, f)
}

// NoEqualsInValues is the twin in which no string or raw value contains '=' (so no value contains
// text of the form "tag="); lengths are unchanged. The second result says whether anything changed.
func (m *Msg) NoEqualsInValues() (*Msg, bool) {
	c := m.Clone()
	changed := false
	c.Walk(func(it *Item, _ bool) {
		if it.Kind == 'K' && it.V != nil && (it.V.Kind == 'S' || it.V.Kind == 'R') {
			for i, b := range it.V.S {
				if b == '=' {
					it.V.S[i] = ':'
					changed = true
				}
			}
		}
	})
	return c, changed
}

func related(a, b string) bool {
	return a != b && len(a) > 0 && len(b) > 0 && (strings.HasSuffix(a, b) || strings.HasPrefix(a, b) || strings.HasSuffix(b, a) || strings.HasPrefix(b, a))
}

// WithoutLookalikeFields is the twin in which every plain field whose tag number has another tag of
// the template as a proper decimal suffix or prefix (or is one of another tag) is left unpopulated,
// except the fields group entries start with.
func (m *Msg) WithoutLookalikeFields() (*Msg, bool) {
	c := m.Clone()
	var tags []string
	var collect func(items []*Item)
	collect = func(items []*Item) {
		for _, it := range items {
			switch it.Kind {
			case 'K':
				tags = append(tags, it.Tag)
			case 'C':
				collect(it.Items)
			case 'G':
				tags = append(tags, it.Tag)
				collect(it.Tpl)
			}
		}
	}
	collect(c.Header)
	collect(c.Body)
	collect(c.Trailer)
	tags = append(tags, c.BsTag, c.BlTag, c.CsTag, c.MtTag)
	lookalike := func(t string) bool {
		for _, o := range tags {
			if related(t, o) {
				return true
			}
		}
		return false
	}
	changed := false
	c.Walk(func(it *Item, firstOfEntry bool) {
		if it.Kind == 'K' && !firstOfEntry && it.V != nil && it.V.Valid && lookalike(it.Tag) {
			it.V = &Val{Kind: it.V.Kind, Nil: true}
			changed = true
		}
	})
	return c, changed
}
