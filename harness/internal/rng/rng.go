// Package rng is the single source of randomness of the harness: a
// splitmix64 generator, so that one seed determines every choice.
package rng

type R struct{ s uint64 }

func New(seed uint64) *R { return &R{s: seed*0x9E3779B97F4A7C15 + 0x1234567} }

func (r *R) U64() uint64 {
	r.s += 0x9E3779B97F4A7C15
	z := r.s
	z = (z ^ (z >> 30)) * 0xBF58476D1CE4E5B9
	z = (z ^ (z >> 27)) * 0x94D049BB133111EB
	return z ^ (z >> 31)
}

// Intn returns a number in [0,n).
func (r *R) Intn(n int) int {
	if n <= 0 {
		return 0
	}
	return int(r.U64() % uint64(n))
}

// Range returns a number in [lo,hi].
func (r *R) Range(lo, hi int) int { return lo + r.Intn(hi-lo+1) }

func (r *R) Bool() bool { return r.U64()&1 == 1 }

// Chance returns true with probability num/den.
func (r *R) Chance(num, den int) bool { return r.Intn(den) < num }

// Fork derives an independent generator (for per-case streams).
func (r *R) Fork() *R { return New(r.U64()) }
