// Package gen generates message templates and populations from one PRNG
// state.
package gen

import (
	"fmt"
	"math"
	"strconv"
	"time"

	"verifharness/internal/desc"
	"verifharness/internal/rng"
)

type Opts struct {
	MaxDepth        int
	MaxEntries      int
	MaxWidth        int
	FirstPopulated  bool // every group entry populates its first field (and it is a field)
	PopulateProb    int  // percent chance that an optional leaf is populated
	AllowEmptyVals  bool // allow populated-but-empty strings / raw
	AllowEmptyEnt   bool // allow entries with nothing populated
	FixedFraming    bool // framing tags 8/9/10/35
	LongLists       bool // now and then a group with 9..120 entries
	TrailerCheckSum bool // now and then the trailer template lists the CheckSum field as a member (as the FIX trailer does)
}

func DefaultOpts() Opts {
	return Opts{MaxDepth: 4, MaxEntries: 4, MaxWidth: 5, FirstPopulated: true, PopulateProb: 70}
}

type G struct {
	manyUsed bool // a group with a long entry list has been generated for this message
	R        *rng.R
	O        Opts
	used     map[string]bool
	Tags     []string // all tags handed out, for look-alike text
}

func New(r *rng.R, o Opts) *G { return &G{R: r, O: o, used: map[string]bool{}} }

// FreshTag returns a tag number not used before in this case.
func (g *G) FreshTag() string {
	for {
		var n int
		switch g.R.Intn(6) {
		case 0:
			n = g.R.Range(1, 9)
		case 1, 2:
			n = g.R.Range(10, 99)
		case 3, 4:
			n = g.R.Range(100, 999)
		default:
			n = g.R.Range(1000, 20000)
		}
		// look-alikes: sometimes derive from an existing tag by adding a digit
		if len(g.Tags) > 0 && g.R.Chance(1, 4) {
			base := g.Tags[g.R.Intn(len(g.Tags))]
			d := strconv.Itoa(g.R.Intn(10))
			var s string
			if g.R.Bool() {
				if d == "0" {
					d = "1"
				}
				s = d + base
			} else {
				s = base + d
			}
			if len(s) <= 6 && !g.used[s] {
				g.used[s] = true
				g.Tags = append(g.Tags, s)
				return s
			}
		}
		s := strconv.Itoa(n)
		if !g.used[s] {
			g.used[s] = true
			g.Tags = append(g.Tags, s)
			return s
		}
	}
}

func (g *G) Reserve(tag string) { g.used[tag] = true; g.Tags = append(g.Tags, tag) }

var kinds = []byte{'S', 'S', 'S', 'I', 'I', 'U', 'F', 'T', 'B', 'R'}

// nasty fragments for strings (no SOH)
var frags = []string{"=", "10=", "9=", "8=", "35=", "34=", " ", "0", "1", "=x", "Y", "N", "\x00", "\xff", "FIX.4.4", "-", "+", ".", "e", "|", "\x02", "=10="}

// String returns a non-empty SOH-free byte string of nasty content.
func (g *G) String() []byte {
	n := 1
	switch g.R.Intn(10) {
	case 0:
		n = g.R.Range(20, 60)
	case 1, 2, 3:
		n = g.R.Range(4, 12)
	default:
		n = g.R.Range(1, 4)
	}
	var out []byte
	for len(out) < n {
		switch g.R.Intn(8) {
		case 0:
			out = append(out, frags[g.R.Intn(len(frags))]...)
		case 1:
			if len(g.Tags) > 0 {
				out = append(out, g.Tags[g.R.Intn(len(g.Tags))]...)
				out = append(out, '=')
				if g.R.Bool() {
					out = append(out, byte('0'+g.R.Intn(10)))
				}
			}
		case 2:
			b := byte(g.R.Intn(256))
			if b == 1 {
				b = 2
			}
			out = append(out, b)
		default:
			out = append(out, byte(g.R.Range(32, 126)))
		}
	}
	return out
}

func (g *G) Int() int64 {
	switch g.R.Intn(8) {
	case 0:
		return 0
	case 1:
		return int64(g.R.Range(-9, 9))
	case 2:
		return math.MaxInt64
	case 3:
		return math.MinInt64
	case 4:
		return int64(g.R.U64())
	default:
		return int64(g.R.Range(-100000, 100000))
	}
}

func (g *G) Uint() uint64 {
	switch g.R.Intn(6) {
	case 0:
		return 0
	case 1:
		return math.MaxUint64
	case 2:
		return g.R.U64()
	default:
		return uint64(g.R.Intn(1000000))
	}
}

// Float returns a finite float64.
func (g *G) Float() float64 {
	for {
		var f float64
		switch g.R.Intn(8) {
		case 0:
			f = 0
		case 1:
			f = math.Float64frombits(g.R.U64())
		case 2:
			f = float64(g.R.Range(-1000, 1000))
		case 3:
			f = math.MaxFloat64
		case 4:
			f = math.SmallestNonzeroFloat64
		case 5:
			f = -float64(g.R.Intn(1000000)) / 1000
		default:
			f = float64(g.R.Intn(100000000)) / 100
		}
		if !math.IsNaN(f) && !math.IsInf(f, 0) {
			return f
		}
	}
}

// Time returns a UTC instant at millisecond precision, year 0..9999.
func (g *G) Time() time.Time {
	if g.R.Chance(1, 12) { // instants a formatter or an "is it set" test may single out
		return []time.Time{
			{}, // 0001-01-01T00:00:00.000Z, Go's zero time
			time.Unix(0, 0).UTC(),
			time.Date(9999, 12, 31, 23, 59, 59, 999000000, time.UTC),
			time.Date(1, 1, 1, 0, 0, 0, 1000000, time.UTC),
		}[g.R.Intn(4)]
	}
	y := g.R.Range(1970, 2100)
	switch g.R.Intn(6) {
	case 0:
		y = g.R.Range(0, 9999)
	case 1:
		y = []int{0, 1, 1600, 1900, 2000, 2024, 9999}[g.R.Intn(7)]
	}
	mo := g.R.Range(1, 12)
	d := g.R.Range(1, 28)
	if g.R.Chance(1, 4) {
		// last day of month, leap-year aware via time normalisation
		t := time.Date(y, time.Month(mo)+1, 0, 0, 0, 0, 0, time.UTC)
		d = t.Day()
		mo = int(t.Month())
	}
	ms := g.R.Intn(1000)
	if g.R.Chance(1, 5) {
		ms = []int{0, 1, 999, 500}[g.R.Intn(4)]
	}
	return time.Date(y, time.Month(mo), d, g.R.Intn(24), g.R.Intn(60), g.R.Intn(60), ms*1000000, time.UTC)
}

var routes = []string{"new", "set", "parse"}

// Value returns a populated value of the kind.
func (g *G) Value(kind byte) *desc.Val {
	v := &desc.Val{Kind: kind, Valid: true, Route: routes[g.R.Intn(3)]}
	switch kind {
	case 'S':
		v.S = g.String()
		if g.O.AllowEmptyVals && g.R.Chance(1, 12) {
			v.S = []byte{}
		}
	case 'I':
		v.I = g.Int()
	case 'U':
		v.U = g.Uint()
	case 'F':
		v.F = g.Float()
		if v.Route == "parse" {
			v.Src = desc.FloatText(v.F)
		} else if g.R.Chance(1, 6) {
			v.Route = "parseset"
		}
	case 'T':
		v.Tm = g.Time()
	case 'B':
		v.B = g.R.Bool()
	case 'R':
		v.S = g.String()
		if g.O.AllowEmptyVals && g.R.Chance(1, 12) {
			v.S = []byte{}
		}
		if v.Route == "new" {
			v.Route = "newraw"
		}
	}
	return v
}

func Empty(kind byte) *desc.Val {
	return &desc.Val{Kind: kind, Nil: kind == 'R'}
}

// templ generates a template item list (values unpopulated).
func (g *G) templ(depth int, inEntry bool) []*desc.Item {
	n := g.R.Range(1, g.O.MaxWidth)
	var out []*desc.Item
	for i := 0; i < n; i++ {
		c := g.R.Intn(10)
		if inEntry && i == 0 && g.O.FirstPopulated {
			c = 0 // first member of an entry is a field
		}
		switch {
		case c >= 8 && depth < g.O.MaxDepth:
			tag := g.FreshTag()
			out = append(out, &desc.Item{Kind: 'G', Tag: tag, Tpl: g.templ(depth+1, true)})
		case c == 7 && depth < g.O.MaxDepth:
			out = append(out, &desc.Item{Kind: 'C', Items: g.templ(depth+1, false)})
		default:
			out = append(out, &desc.Item{Kind: 'K', Tag: g.FreshTag(), V: Empty(kinds[g.R.Intn(len(kinds))])})
		}
	}
	return out
}

// smallFlat: an entry template of at most four plain fields (long entry lists are generated only
// for such groups, so that the message stays small enough for the model to be evaluated quickly).
func smallFlat(tpl []*desc.Item) bool {
	if len(tpl) > 4 {
		return false
	}
	for _, it := range tpl {
		if it.Kind != 'K' {
			return false
		}
	}
	return true
}

// populate returns a populated copy of a template list.
func (g *G) populate(tpl []*desc.Item, entry bool) []*desc.Item {
	out := make([]*desc.Item, len(tpl))
	for i, it := range tpl {
		switch it.Kind {
		case 'K':
			must := entry && i == 0 && g.O.FirstPopulated
			if must || g.R.Intn(100) < g.O.PopulateProb {
				out[i] = &desc.Item{Kind: 'K', Tag: it.Tag, V: g.Value(it.V.Kind)}
			} else {
				out[i] = &desc.Item{Kind: 'K', Tag: it.Tag, V: Empty(it.V.Kind)}
			}
		case 'C':
			out[i] = &desc.Item{Kind: 'C', Items: g.populate(it.Items, false)}
		case 'G':
			ne := 0
			if g.R.Intn(100) < g.O.PopulateProb {
				ne = g.R.Range(1, g.O.MaxEntries)
				// now and then a count of two or three digits (once per message at most: the size
				// of the message is the product of the counts along a path)
				if g.O.LongLists && !g.manyUsed && smallFlat(it.Tpl) && g.R.Chance(1, 8) {
					g.manyUsed = true
					ne = []int{9, 10, 10, 11, 12, 25, 25, 100}[g.R.Intn(8)]
				}
			}
			grp := &desc.Item{Kind: 'G', Tag: it.Tag, Tpl: it.Tpl}
			for e := 0; e < ne; e++ {
				grp.Entries = append(grp.Entries, g.populate(it.Tpl, true))
			}
			out[i] = grp
		}
	}
	return out
}

// Message generates a random template and a population of it.
func (g *G) Message() *desc.Msg {
	g.manyUsed = false
	m := &desc.Msg{BsTag: "8", BlTag: "9", CsTag: "10", MtTag: "35", Bs: "FIX.4.4"}
	if !g.O.FixedFraming && g.R.Chance(1, 3) {
		// four fresh tags (look-alikes of each other now and then), dealt to the four roles in a
		// random order so that every role can be a decimal suffix or prefix of every other
		ft := []string{g.FreshTag(), g.FreshTag(), g.FreshTag(), g.FreshTag()}
		for i := 3; i > 0; i-- {
			j := g.R.Intn(i + 1)
			ft[i], ft[j] = ft[j], ft[i]
		}
		m.BsTag, m.BlTag, m.CsTag, m.MtTag = ft[0], ft[1], ft[2], ft[3]
	} else {
		g.Reserve("8")
		g.Reserve("9")
		g.Reserve("10")
		g.Reserve("35")
	}
	if g.R.Chance(1, 4) {
		m.Bs = string(g.String())
	}
	mts := []string{"A", "0", "1", "2", "3", "5", "D", "V", "8", "AB", "X"}
	m.Mt = mts[g.R.Intn(len(mts))]
	if g.R.Chance(1, 6) {
		m.Mt = string(g.String())
	}
	var ht, bt, tt []*desc.Item
	if !g.R.Chance(1, 5) {
		ht = g.templ(1, false)
	}
	if !g.R.Chance(1, 6) {
		bt = g.templ(0, false)
	}
	if g.R.Chance(1, 3) {
		tt = g.templ(2, false)
	}
	m.Header = g.populate(ht, false)
	m.Body = g.populate(bt, false)
	m.Trailer = g.populate(tt, false)
	if g.O.TrailerCheckSum && g.R.Chance(1, 8) {
		// the trailer lists CheckSum itself, empty or holding a value set by hand or left by a parse:
		// the only CheckSum on the wire is the computed one
		v := &desc.Val{Kind: 'S'}
		if g.R.Chance(3, 4) {
			v = &desc.Val{Kind: 'S', Valid: true, S: []byte(fmt.Sprintf("%03d", g.R.Intn(256))), Route: routes[g.R.Intn(3)]}
		}
		m.Trailer = append(m.Trailer, &desc.Item{Kind: 'K', Tag: m.CsTag, V: v})
	}
	return m
}
