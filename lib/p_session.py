"""Checks of the session family: C05 (sequential layer), C06, C07, C10, C14, C15, C16, C19."""
import p_codec

SESSION_ASSUMPTIONS = [
    "one inbound goroutine and serialised senders: operations are atomic steps (the locks that make them so are C05b/C20's obligation)",
    "heartbeat intervals of 20..60 s so that no real timer fires inside a logic scenario; timer operations are exercised by the timing checks (C08/C09)",
    "the application hands a fresh message object to every Send and handlers do not mutate messages",
    "SendingTime value abstracted to a placeholder of the same format on both sides",
]


def normalise_model(ans):
    """The model lists an op's outputs in call order; the implementation's call log and its outgoing
    channel are two separate sequences. Both are compared as: header, calls (S/I/O/E in order), wires
    (W in order), one X flag if any send failed, Y flag."""
    blocks = []
    for b in ans.split(" | "):
        t = b.split(" ")
        head, rest = t[:5], t[5:]
        calls = [x for x in rest if x and x[0] in "SIOE"]
        wires = [x for x in rest if x.startswith("W")]
        flags = []
        if any(x == "X" for x in rest):
            flags.append("X")
        if any(x == "Y" for x in rest):
            flags.append("Y")
        blocks.append(" ".join(head + calls + wires + flags))
    return " | ".join(blocks)


RULE = ("scenarios = configuration (role, allowed methods, heartbeat limits, refusing logon callback, failing saves, "
        "pre-populated shared store, application handlers with accept/refuse verdicts) + 1..40 operations drawn from a "
        "weighted grammar: acceptable / refused (method, heartbeat low/high, credentials) / damaged (checksum, length, "
        "non-numeric field) Logons, heartbeats, test requests with hostile ids, resend requests over all range classes, "
        "logouts, application and unknown types, messages without MsgType, missing / non-numeric / jumping sequence "
        "numbers, local sends, Logout, Stop, handler registrations; plus the regression corpus of repaired defects; "
        "non-trivial = at least one inbound operation; distinct = distinct scenario line")


def session_check(pid, what, with_timing=False):
    def chk(_pid, tier, seed, t0):
        extra = [("timing", 0, 0, ["-tier", tier], "timing", "timer")] if with_timing else None
        return p_codec.generic_codec_check(
            pid, tier, seed, t0,
            runs=[("session", 1500, 40000, None)], extra_runs=extra,
            nontrivial=lambda r: " IN " in r["case"],
            rule=RULE + "; oracle for this property: " + what,
            assumptions=SESSION_ASSUMPTIONS,
            binary="session", family="session", normalise=normalise_model)
    return chk


check_C06 = session_check("C06", "logged on only through an acceptable Logon in WaitingLogon (acceptor) / a Logon answer (initiator); "
                                 "one echoing Logon answer; every other Logon -> one Reject by sequence number naming the offending tag; state kept; "
                                 "real-time scenario: own Logout, 2.7 s of silence (heartbeat interval 1 s), a Heartbeat from the peer: not logged on",
                          with_timing=True)
check_C07 = session_check("C07", "message types on the wire before the first logged-on state are within {A,5,3}")
check_C16 = session_check("C16", "each invalid/not-permitted admin message -> exactly one Reject with RefSeqNum (or RefTagID=34), state/context unchanged")
check_C14 = session_check("C14", "each TestRequest while logged on -> exactly one Heartbeat with identical TestReqID; real-time scenario: a "
                                 "TestRequest arriving while the session waits for the answer to its own TestRequest", with_timing=True)
check_C10 = session_check("C10", "resend answers = recorded first transmissions b..e byte-identical, nothing outside the range; gap request starts at the "
                                 "first missing number; real-time scenario: a ResendRequest for the first of several timer heartbeats returns those very messages",
                          with_timing=True)
check_C15 = session_check("C15", "peer Logout -> one Logout, not logged; own Logout -> none on the answer, logout event, context cancelled after Stop; "
                                 "real-time scenarios: Stop with close timeouts 0 / 50 ms / 500 ms and a silent peer; Logout / Stop answered 2.7 s late "
                                 "(heartbeat interval 1 s, close timeout 8 s): no second Logout, logout event, context cancelled on the answer", with_timing=True)
check_C19 = session_check("C19", "every transmitted message was saved under its number earlier in the same step; failed save / refusal -> not transmitted")
check_C05 = session_check("C05", "new sequence numbers consecutive from the stored counter, comp ids, SendingTime format")
