"""Checks of the codec family: C01, C17, C02, C18, C03, C11."""
import collections
import hashlib
import json
import os
import subprocess
import tempfile
import time

import common
from common import BIN, BUILD, Verdict, log


def run_harness(mode, seed, n, extra=None, binary="codec"):
    """Runs a Go driver; returns the list of case records."""
    os.makedirs(os.path.join(BUILD, "runs"), exist_ok=True)
    fd, path = tempfile.mkstemp(prefix="%s-%s-" % (binary, mode), suffix=".jsonl", dir=os.path.join(BUILD, "runs"))
    os.close(fd)
    try:
        cmd = [os.path.join(BIN, binary), "-seed", str(seed), "-n", str(n), "-out", path]
        if binary == "codec":
            cmd += ["-mode", mode]
        if extra:
            cmd += extra
        p = subprocess.run(cmd, timeout=3000, stdout=subprocess.PIPE, stderr=subprocess.STDOUT, text=True,
                           env=dict(os.environ, GOMAXPROCS=str(common.NPROC)))
        if p.returncode != 0:
            raise common.BuildError("codec harness failed: " + p.stdout[-3000:])
        recs = []
        with open(path) as f:
            for line in f:
                recs.append(json.loads(line))
        return recs
    finally:
        try:
            os.unlink(path)
        except OSError:
            pass


def load_corpus(pid):
    d = os.path.join(common.VERIF, "corpus", pid)
    out = []
    if os.path.isdir(d):
        for fn in sorted(os.listdir(d)):
            if fn.endswith(".json"):
                with open(os.path.join(d, fn)) as f:
                    out.append((fn, json.load(f)))
    return out


def compare(recs, family="codec", normalise=None):
    """Runs the model on every (non-skipped) case; returns the list of mismatching records."""
    todo = [r for r in recs if not r.get("skip")]
    answers = common.run_model([r["case"] for r in todo], family=family)
    mism = []
    for r, a in zip(todo, answers):
        if normalise:
            a = normalise(a)
        r["model"] = a
        if a != r["impl"]:
            mism.append(r)
    return mism


def first_diff(a, b):
    n = min(len(a), len(b))
    for i in range(n):
        if a[i] != b[i]:
            return i
    return n


def brief(rec, limit=400):
    d = {k: rec.get(k) for k in ("id", "mode", "case", "impl", "model", "oracle", "tags")}
    if d.get("tags"):
        d["tags"] = [t if len(t) < limit else t[:limit] + "..." for t in d["tags"]]
    for k in ("case", "impl", "model"):
        if isinstance(d.get(k), str) and len(d[k]) > limit:
            d[k] = d[k][:limit] + "...(%d chars)" % len(rec[k])
    return d


def generic_codec_check(pid, tier, seed, t0, runs, gate_pid=None, nontrivial=None, rule="", known_match=None,
                        assumptions=None, binary="codec", family="codec", normalise=None, extra_cov=None,
                        extra_runs=None):
    """runs: list of (mode, n_quick, n_thorough, extra_args). Oracles keyed by pid in each record."""
    v = Verdict(pid)
    gate = common.proof_gate(gate_pid or pid)
    recs = []
    for mode, nq, nt, extra in runs:
        n = nq if tier == "quick" else nt
        recs += run_harness(mode, seed, n, extra, binary=binary)
    mism = compare(recs, family=family, normalise=normalise)
    for mode, nq, nt, extra, b2, f2 in (extra_runs or []):
        recs2 = run_harness(mode, seed, nq if tier == "quick" else nt, extra, binary=b2)
        recs2 = [r for r in recs2 if pid in (r.get("oracle") or {})]   # only what concerns this property
        if f2 is None:   # judged by the oracles alone
            for r in recs2:
                r["skip"] = True
        else:
            mism += compare(recs2, family=f2)
        recs += recs2
    oracle_fail = []
    tags = collections.Counter()
    distinct = set()
    skipped = 0
    for r in recs:
        for t in r.get("tags") or []:
            if not t.startswith("scenario="):
                tags[t] += 1
        o = (r.get("oracle") or {}).get(pid, "")
        if o.startswith("fail"):
            oracle_fail.append(r)
        elif o.startswith("skip"):
            skipped += 1
        if nontrivial is None or nontrivial(r):
            distinct.add(hashlib.sha256(r["case"].encode()).hexdigest())
    known = common.load_known()
    n_known = 0
    for r in oracle_fail:
        km = known_match(r, known) if known_match else None
        if km:
            v.known_finding(km)
            n_known += 1
        else:
            v.violation({"property": pid, "kind": "oracle", "what": r["oracle"][pid],
                         "case": r["case"], "impl": r["impl"], "model": r.get("model"), "mode": r["mode"],
                         "replay_cmd": "bin/check %s --replay <this file>" % pid})
    unknown_viol = len(v.violations)
    if not gate["ok"]:
        if unknown_viol == 0:
            v.violation({"property": pid, "kind": "proof-obligation",
                         "what": "the proof obligation for %s no longer checks" % pid,
                         "theorems": gate.get("theorems"), "error": gate["error"],
                         "searched": "%d generated cases, oracle silent" % len(recs)}, no_input=True)
    if mism and unknown_viol == 0 and gate["ok"]:
        m0 = mism[0]
        v.violation({"property": pid, "kind": "correspondence",
                     "what": "the model (for which the theorems of props/%s.v hold) no longer predicts the implementation"
                             % (gate_pid or pid),
                     "relation": "%s: implementation answer = model answer on the same protocol line" % m0["mode"],
                     "mismatches": len(mism), "first_mismatch": brief(m0, 100000),
                     "first_difference_at": first_diff(m0["impl"], m0.get("model", "")),
                     "searched": "%d generated cases (mismatching inputs first), oracle silent" % len(recs)},
                    no_input=True)
    samples = [brief(r, 300) for r in recs[:2]] + [brief(r, 300) for r in recs[-1:]]
    n_ob = len(gate.get("theorems") or []) or 1
    cov = {
        "obligations": n_ob,
        "discharged": n_ob if gate["ok"] else 0,
        "checker_cmd": "coqc -Q coq SF coq/props/%s.v (after a full make of coq/; Print Assumptions parsed)" % (gate_pid or pid),
        "trusted_base": common.TRUSTED_BASE,
        "theorems": gate.get("theorems"),
        "axioms": gate.get("axioms"),
        "closed_under_global_context": gate.get("closed"),
        "evaluations": len(recs),
        "distinct_nontrivial": len(distinct),
        "rule": rule,
        "traces_validated_against_impl": len(recs) - sum(1 for r in recs if r.get("skip")),
        "correspondence_mismatches": len(mism),
        "oracle_failures": len(oracle_fail),
        "oracle_skipped_outside_quantifier": skipped,
        "known_finding_hits": n_known,
        "input_distribution": dict(sorted(tags.items())),
        "max_size_bytes": max([r.get("size", 0) for r in recs] or [0]),
        "samples": samples,
    }
    if extra_cov:
        cov.update(extra_cov)
    common.write_evidence(pid, tier, seed, cov, time.time() - t0, len(v.violations), assumptions or [])
    return v.finish()


def check_C01(pid, tier, seed, t0):
    return generic_codec_check(
        pid, tier, seed, t0,
        runs=[("tobytes", 3000, 60000, None), ("parallel", 60, 400, None)],
        nontrivial=lambda r: r["impl"] not in ("PANIC", "ERR"),
        rule="random item trees (depth<=5, all seven value types, three population routes, nasty strings, "
             "random framing tags) + 14 targeted body lengths across digit boundaries + all 256 checksum residues; "
             "non-trivial = serialized without error; distinct = distinct protocol line; plus the parallel run: eight "
             "goroutines serialize and parse messages of their own at the same time, every result must be what the "
             "same call returns alone (no model comparison, judged by the oracles)",
        assumptions=["BeginString and MsgType non-empty (the property's own framing)",
                     "float/time canonical text supplied by the Go formatter (oracle)"])


def check_C17(pid, tier, seed, t0):
    return generic_codec_check(
        pid, tier, seed, t0,
        runs=[("tobytes", 3000, 60000, None), ("parallel", 60, 400, None)],
        nontrivial=lambda r: (r.get("oracle") or {}).get("C17") == "ok",
        rule="same generator as C01; every value built through a randomly chosen public route (constructor, "
             "setter on an empty value, parse, parse-then-set); oracle: field list of the output vs the populated "
             "leaves computed from the case description; non-trivial = inside the quantifier (no empty value, no "
             "empty entry) and serialized; distinct = distinct protocol line",
        assumptions=["every group entry has at least one populated member; values non-empty (theorem hypotheses)",
                     "float/time canonical text supplied by the Go formatter (oracle)"])


def check_C02(pid, tier, seed, t0):
    return generic_codec_check(
        pid, tier, seed, t0,
        runs=[("roundtrip", 3000, 50000, None), ("lookup", 150, 1500, None), ("parallel", 60, 400, None)],
        nontrivial=lambda r: r["mode"] == "roundtrip" and r["impl"].startswith("OK"),
        rule="random templates with pairwise distinct tags (look-alike tags d.t / t.d included), nested groups and "
             "components to depth 5, every entry populating its first field, values of all seven types with text "
             "resembling other fields; serialize, parse into the empty template (strict and non-strict), compare typed "
             "getters and re-serialized bytes; non-trivial = round trip parsed; distinct = distinct protocol line",
        assumptions=["distinct tags per template, first field of each entry populated, values non-empty and SOH-free",
                     "ParseFloat(FormatFloat x) = x and Parse(Format t) = t for ms-precision UTC times (Go stdlib, oracle)"])


def check_C18(pid, tier, seed, t0):
    return generic_codec_check(
        pid, tier, seed, t0,
        runs=[("lookup", 300, 4000, None), ("parallel", 60, 400, None)],
        extra_runs=[("stream", 120, 2000, None, "stream", "frame")],
        nontrivial=lambda r: r["mode"] == "valbytag" or r["impl"].startswith("OK") or r["mode"].startswith("frame"),
        rule="messages whose values contain 't=' for template tags t (plain, count, first-of-group, MsgType, MsgSeqNum, "
             "CheckSum) and whose templates contain tags with a template tag as proper decimal suffix/prefix; every tag "
             "and its look-alikes looked up with ValueByTag against an independent boundary-anchored tokenizer; the "
             "message itself round-tripped; distinct = distinct protocol line",
        assumptions=["well-formed messages: tags are digit strings, values SOH-free"])


def check_C03(pid, tier, seed, t0):
    return generic_codec_check(
        pid, tier, seed, t0,
        runs=[("damage", 40, 600, None), ("parallel", 60, 400, None)],
        nontrivial=lambda r: r["mode"] == "damage" and (r.get("oracle") or {}).get("C03") == "ok" or r["mode"] == "validate",
        rule="for every generated valid message the whole damage neighbourhood (255*n substitutions, 256*(n-1) "
             "insertions, n deletions, n prefixes) is run through Unmarshal in strict and non-strict mode on the "
             "implementation; the model is run (validate_raw) on a stratified sample of variants and on every accepted "
             "one; one message in seven has NUL bytes in BeginString; distinct = distinct protocol line",
        assumptions=["values SOH-free; the parsed-into message type has the sender's BeginString"])


def check_C11(pid, tier, seed, t0):
    return generic_codec_check(
        pid, tier, seed, t0,
        runs=[("decode", 20000, 1000000, None), ("parallel", 60, 400, None)],
        extra_runs=[("session", 800, 20000, None, "session", None)],
        nontrivial=lambda r: True,
        rule="five streams: arbitrary bytes; hostile bodies framed with a solved BodyLength/CheckSum so that they pass "
             "the integrity check (missing '=', empty values, repeated delimiters, count tags at the end, wrong counts); "
             "structural mutations of valid messages re-framed; ValueByTag on arbitrary/truncated data with exact, "
             "empty, prefix and suffix tags; fixed corner cases; each against a random nested-group template, under a "
             "5 s watchdog; result kind and parsed projection compared with the model; distinct = distinct protocol line; plus "
             "session scenarios (oracle only here): no inbound message of any scenario makes the session's inbound path "
             "panic or hang (resend ranges at the ends of the integer range included)",
        assumptions=["header and trailer components are set on the message type (NewMessage without SetHeader is unusable "
                     "even for serialization)"])


def replay(pid, obj):
    case = obj.get("case") or (obj.get("first_mismatch") or {}).get("case")
    if not case:
        print(json.dumps(obj, indent=1)[:3000])
        return 0
    ans = common.run_model([case])[0]
    print("case :", case[:2000])
    print("model:", ans[:2000])
    print("impl :", (obj.get("impl") or (obj.get("first_mismatch") or {}).get("impl") or "")[:2000])
    return 0
