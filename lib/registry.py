"""Property id -> check function."""
import p_codec
import p_session
import p_stream
import p_conc
import p_timing
import p_lifecycle
import p_gen

CHECKS = {
    "C01": p_codec.check_C01,
    "C17": p_codec.check_C17,
    "C02": p_codec.check_C02,
    "C18": p_codec.check_C18,
    "C03": p_codec.check_C03,
    "C11": p_codec.check_C11,
    "C06": p_session.check_C06,
    "C07": p_session.check_C07,
    "C16": p_session.check_C16,
    "C14": p_session.check_C14,
    "C10": p_session.check_C10,
    "C15": p_session.check_C15,
    "C19": p_session.check_C19,
    "C05": p_conc.check_C05,
    "C20": p_conc.check_C20,
    "C08": p_timing.check_C08,
    "C09": p_timing.check_C09,
    "C04": p_stream.check_C04,
    "C13": p_lifecycle.check_C13,
    "C12": p_gen.check_C12,
}


def replay(pid, path):
    import json
    with open(path) as f:
        obj = json.load(f)
    if pid in ("C01", "C17", "C02", "C03", "C11", "C18"):
        return p_codec.replay(pid, obj)
    print("no replay support for", pid)
    return 2
