"""Property id -> check function."""
import p_codec

CHECKS = {
    "C01": p_codec.check_C01,
}


def replay(pid, path):
    import json
    with open(path) as f:
        obj = json.load(f)
    if pid in ("C01", "C17", "C02", "C03", "C11", "C18"):
        return p_codec.replay(pid, obj)
    print("no replay support for", pid)
    return 2
