"""C20 (data-race freedom) and the concurrency layer of C05: lock tables regenerated from the
source and checked in Coq, plus the -race scenario driver / the stress driver."""
import json
import os
import re
import subprocess
import time

import common
import p_codec
import p_session
from common import BIN, BUILD, COQ, Verdict


def coq_eval(body, timeout=300):
    os.makedirs(os.path.join(BUILD, "runs"), exist_ok=True)
    path = os.path.join(BUILD, "runs", "eval_%d.v" % os.getpid())
    with open(path, "w") as f:
        f.write("From Coq Require Import String List NArith.\nFrom SF Require Import Conc Sites.\n" + body)
    try:
        p = common.sh("timeout %d coqc -Q %s SF %s" % (timeout, COQ, path), cwd=BUILD, check=False, timeout=timeout + 30)
        return p.stdout or ""
    finally:
        for ext in ("", "o", "ok", "os"):
            try:
                os.unlink(path + ext if ext else path)
            except OSError:
                pass
        try:
            os.unlink(path[:-2] + ".glob")
        except OSError:
            pass


def table_stats():
    out = coq_eval(
        "Eval vm_compute in (length site_funcs).\n"
        "Eval vm_compute in (length (flat_map (role_accesses site_names site_funcs (summaries site_names site_funcs)) (all_roles site_names site_funcs))).\n"
        "Eval vm_compute in (length (all_roles site_names site_funcs)).\n"
        "Eval vm_compute in map (show_race site_names) (races site_names site_funcs).\n"
        "Open Scope string_scope.\n"
        "Definition UG := Eval vm_compute in unguarded_roles site_names site_funcs \"simplefixgo.DefaultHandler.send\" \"DefaultHandler.mu\". Print UG.\n")
    nums = [int(x) for x in re.findall(r"=\s*(\d+)%nat", out)]
    races = re.findall(r'\("([^"]+)",\s*\("([^"]+)",\s*(\d+)%nat\),\s*\("([^"]+)",\s*(\d+)%nat\)\)', out.replace("\n", " "))
    m = re.search(r"UG =(.*?): list string", out.replace("\n", " "))
    global UNGUARDED
    UNGUARDED = re.findall(r'"([^"]+)"', m.group(1)) if m else []
    return nums, races, out


UNGUARDED = []


def run_race_driver(rounds, seed):
    env = dict(os.environ, GORACE="halt_on_error=0")
    p = subprocess.run([os.path.join(BIN, "race"), "-rounds", str(rounds), "-seed", str(seed)], env=env,
                       stdout=subprocess.PIPE, stderr=subprocess.STDOUT, text=True, timeout=600)
    out = p.stdout
    reports = []
    for blk in out.split("==================")[1:]:
        if "DATA RACE" not in blk:
            continue
        frames = re.findall(r"^\s+(github\.com/b2broker/simplefix-go[^\s(]*\S*)\(\)\s*\n\s+(\S+:\d+)", blk, re.M)
        reports.append({"frames": [f[0] + " " + f[1] for f in frames[:8]], "text": blk.strip()[:3000]})
    ok_lines = [l for l in out.split("\n") if l.startswith(("A: ", "I: "))]
    return reports, ok_lines


def check_C20(pid, tier, seed, t0):
    v = Verdict(pid)
    gate = common.proof_gate(pid)
    nums, races, raw = table_stats()
    rounds = 1 if tier == "quick" else 6
    reports, runs = run_race_driver(rounds, seed)
    failed_runs = [r for r in runs if ": ok" not in r]
    for rep in reports[:3]:
        v.violation({"property": pid, "kind": "race-detector",
                     "what": "the Go race detector reported a data race in the scenario driver",
                     "scenario": "harness/cmd/race (both roles, heartbeat 1 s, senders x4, inbound test/resend/logon/logout, "
                                 "silent phase, state queries, registrations, Stop); seed %d" % seed,
                     "frames": rep["frames"], "report": rep["text"],
                     "table_says": "race-free" if not races else "%d unprotected pairs" % len(races)})
    if not reports and (not gate["ok"] or races):
        v.violation({"property": pid, "kind": "proof-obligation",
                     "what": ("theorem C20_table_race_free (props/C20.v) no longer checks: the regenerated lock table "
                              "has unprotected conflicting pairs" if races else
                              "theorem C20_serialization_guarded (props/C20.v) no longer checks: DefaultHandler.send, where "
                              "ToBytes rewrites the shared message object, is reached without DefaultHandler.mu by the listed roles"
                              if UNGUARDED else "props/C20.v no longer checks"),
                     "unprotected_pairs": [{"field": r[0], "a": "%s:%s" % (r[1], r[2]), "b": "%s:%s" % (r[3], r[4])} for r in races[:40]],
                     "roles_reaching_DefaultHandler.send_without_DefaultHandler.mu": UNGUARDED,
                     "error": gate.get("error"),
                     "searched": "%d runs of the -race scenario driver, detector silent" % len(runs)}, no_input=True)
    cov = {
        "obligations": len(gate.get("theorems") or []) or 2,
        "discharged": (len(gate.get("theorems") or []) or 2) if gate["ok"] else 0,
        "checker_cmd": "coqc -Q coq SF coq/props/C20.v (gen/Sites.v regenerated from /repo by harness/cmd/extract; vm_compute)",
        "trusted_base": common.TRUSTED_BASE + [
            "structural extractor harness/cmd/extract (go/ast): completeness of the lock/access/call events, call resolution, "
            "constant-argument specialisation, goroutine roles, the initialisation-phase exclusion list (Conc.init_phase)",
            "Go race detector runtime for the scenario runs"],
        "theorems": gate.get("theorems"), "axioms": gate.get("axioms"),
        "functions_in_table": nums[0] if nums else 0,
        "shared_accesses_examined": nums[1] if len(nums) > 1 else 0,
        "goroutine_roles": nums[2] if len(nums) > 2 else 0,
        "unprotected_pairs": len(races),
        "evaluations": (nums[1] if len(nums) > 1 else 0) + len(runs),
        "distinct_nontrivial": (nums[1] if len(nums) > 1 else 0),
        "rule": "every (role, access) of the regenerated table is one evaluation (distinct by role/function/line), plus one per "
                "scenario run of the -race driver; non-trivial = an access to a tracked shared field",
        "race_driver_runs": runs, "race_reports": len(reports),
        "traces_validated_against_impl": len(runs),
        "samples": [{"table": "functions=%s accesses=%s roles=%s races=%s" % (tuple(nums + [0, 0, 0])[:3] + (len(races),))},
                    {"race_driver": runs[:2]}],
    }
    common.write_evidence(pid, tier, seed, cov, time.time() - t0, len(v.violations),
                          ["sequentially consistent mutex semantics; channel-induced ordering ignored (sound, may over-report)",
                           "the application configures the session (OnError, SetUnmarshaller, handlers before Run) before sharing it"])
    return v.finish()


def run_stress(n, seed):
    """Runs the stress driver as parallel single-run processes (GOMAXPROCS is per process)."""
    procs = []
    for i in range(n):
        procs.append(subprocess.Popen([os.path.join(BIN, "stress"), "-n", "1", "-start", str(i), "-seed", str(seed)],
                                      stdout=subprocess.PIPE, stderr=subprocess.STDOUT, text=True))
    recs = []
    for p in procs:
        try:
            out, _ = p.communicate(timeout=120)
        except subprocess.TimeoutExpired:
            p.kill()
            out = ""
        for line in out.split("\n"):
            if line.startswith("{"):
                recs.append(json.loads(line))
    return recs


def check_C05(pid, tier, seed, t0):
    stress = run_stress(8 if tier == "quick" else 40, seed)
    extra = {"stress_runs": [r["case"] + " -> " + r["impl"] for r in stress]}
    # the stress records go through the generic machinery as impl-only cases
    orig = p_codec.run_harness

    def patched(mode, sd, n, ex, binary="codec"):
        recs = orig(mode, sd, n, ex, binary=binary)
        return recs + stress
    p_codec.run_harness = patched
    try:
        return p_codec.generic_codec_check(
            pid, tier, seed, t0,
            runs=[("session", 1500, 40000, None)],
            nontrivial=lambda r: " IN " in r["case"] or r["mode"] == "stress",
            rule=p_session.RULE + "; plus the stress driver (runs 6,7 of every 8: a successor session on the store of a session that lost its connection while logged on, numbered consecutively for 2.7 s): G in {2,8,64} goroutines x M sends with 1 s heartbeats, inbound "
                 "test/resend requests, GOMAXPROCS in {1,2,16}, buffers {0,1,10}, random delays inside the counter store, the "
                 "message store and an outgoing handler; oracle: new numbers arrive consecutively at the peer",
            assumptions=p_session.SESSION_ASSUMPTIONS + ["Go memory model and scheduler not modelled: the concurrency theorem is "
                                                         "about the extracted lock structure under sequentially consistent mutexes"],
            binary="session", family="session", normalise=p_session.normalise_model, extra_cov=extra)
    finally:
        p_codec.run_harness = orig
