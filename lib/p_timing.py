"""C08 / C09: timer bounds. Theorems over Timer.v; real-time trace conformance through the
timing driver, judged by the extracted timer model."""
import collections
import hashlib
import time

import common
import p_codec
from common import Verdict

LOWER = ("HB ",)  # observations whose failure is a lower-bound failure (no slack in the property)


def run_timing(tier, seed):
    recs = p_codec.run_harness("timing", seed, 0, ["-tier", tier], binary="timing")
    mism = p_codec.compare(recs, family="timer")
    for r in mism:
        for k in list(r["oracle"].keys()):
            r["oracle"][k] = "fail: observed interval is not a run of the timer model within the slack: %s -> %s" % (r["case"], r.get("model"))
    return recs


def failures(recs, pid):
    return [r for r in recs if (r.get("oracle") or {}).get(pid, "").startswith("fail")]


def timing_check(pid, what):
    def chk(_pid, tier, seed, t0):
        v = Verdict(pid)
        gate = common.proof_gate(pid)
        recs = run_timing(tier, seed)
        fails = failures(recs, pid)
        reruns = 0
        # a failure of an upper bound contains scheduling slack by the property's own wording:
        # it is reported only if it shows up in three runs in a row; lower bounds are reported at once
        lower = [r for r in fails if r["case"].startswith(LOWER)]
        if fails and not lower:
            for _ in range(2):
                reruns += 1
                again = run_timing(tier, seed)
                f2 = failures(again, pid)
                if not f2:
                    fails = []
                    break
        for r in (lower or fails)[:3]:
            v.violation({"property": pid, "kind": "oracle", "what": r["oracle"][pid], "scenario": r["mode"], "tags": r.get("tags"),
                         "observation": r["case"], "replay_cmd": ".build/bin/timing -tier %s (deterministic scripts, real time)" % tier})
        if not v.violations and not gate["ok"]:
            v.violation({"property": pid, "kind": "proof-obligation", "what": "the proof obligation for %s no longer checks" % pid,
                         "theorems": gate.get("theorems"), "error": gate.get("error"),
                         "searched": "%d timed observations, none outside the bounds" % len(recs)}, no_input=True)
        tags = collections.Counter()
        for r in recs:
            if pid in (r.get("oracle") or {}):
                tags[r["mode"]] += 1
        mine = [r for r in recs if pid in (r.get("oracle") or {})]
        n_ob = len(gate.get("theorems") or []) or 1
        cov = {
            "obligations": n_ob, "discharged": n_ob if gate["ok"] else 0,
            "checker_cmd": "coqc -Q coq SF coq/props/%s.v" % pid,
            "trusted_base": common.TRUSTED_BASE + ["wall-clock time, the Go scheduler and time.Ticker: observed traces are judged against the model's bounds with a slack of 250 ms (upper bounds) and 30 ms arrival jitter (lower bounds measured at the peer)"],
            "theorems": gate.get("theorems"), "axioms": gate.get("axioms"),
            "evaluations": len(mine), "distinct_nontrivial": len({hashlib.sha256((r["mode"] + r["case"]).encode()).hexdigest() for r in mine}),
            "rule": "each observed interval (timer return after last refresh; gap between consecutive outbound messages; unsolicited "
                    "heartbeat after the previous outbound message; TestRequest after the last inbound message; disconnect after the "
                    "TestRequest) and each scenario verdict is one evaluation; scenarios: utils.Timer at 20/50/200 ms with idle / "
                    "refresh-just-before / burst patterns; sessions with N=1 (thorough: 1,2,3), both roles: idle, sends just before / "
                    "just after the deadline, bursts; total silence, answers (Heartbeat, other type, TestRequest) in the second period, "
                    "steady traffic with period 0.97N / 0.9N / 0.5N; Stop with close timeouts 0 / 50 ms / 500 ms; " + what,
            "traces_validated_against_impl": len(mine), "reruns_for_upper_bound": reruns,
            "input_distribution": dict(sorted(tags.items())),
            "samples": [p_codec.brief(r, 300) for r in mine[:3]],
        }
        common.write_evidence(pid, tier, seed, cov, time.time() - t0, len(v.violations),
                              ["one timer pair per session (a logon stops the previous pair)", "wall-clock scheduling is outside the model: partial"])
        return v.finish()
    return chk


check_C08 = timing_check("C08", "oracle: gaps <= N + N/10 + slack; unsolicited heartbeats >= N after the previous outbound message")
check_C09 = timing_check("C09", "oracle: probe within [T_in, T_in + T_in/10 + slack] of the last inbound message, disconnect one such period later, "
                                "connection closed; answers cancel; a peer sending at least every N seconds is never probed")
