"""C04: stream reassembly and per-connection pipelines."""
import p_codec


def check_C04(pid, tier, seed, t0):
    return p_codec.generic_codec_check(
        pid, tier, seed, t0,
        runs=[("stream", 400, 6000, None)],
        nontrivial=lambda r: not r["impl"].startswith("0"),
        rule="scripted in-memory net.Conn / net.Listener: 1..6 well-formed messages per connection (values containing "
             "'10=' anywhere, tags 110/210/1010/9710 with three-character values, long values) cut into read chunks "
             "four ways (one read, one byte per read, every single split point over the runs, random chunks, with "
             "scripted pauses); initiator side and acceptor side with 1..8 simultaneous connections; buffer sizes "
             "0/1/10; 0..6 outbound hand-offs per connection; compared: delivered messages vs the model's reassembly "
             "and vs what the peer sent, Write calls vs hand-offs; non-trivial = at least one message delivered; "
             "distinct = distinct chunk sequence",
        assumptions=["bufio.Reader and the transport present bytes in order (trusted)",
                     "goroutine scheduling abstracted to arbitrary interleaving of channel hand-offs in the pipeline theorem"],
        binary="stream", family="frame")
