"""Shared machinery of the checks: build (under a lock), running the model
driver, evidence and replay files, known findings."""
import fcntl
import hashlib
import json
import os
import re
import subprocess
import sys
import time

VERIF = os.path.dirname(os.path.dirname(os.path.abspath(__file__)))
REPO = os.environ.get("VERIF_REPO", "/repo")
BUILD = os.path.join(VERIF, ".build")
BIN = os.path.join(BUILD, "bin")
COQ = os.path.join(VERIF, "coq")
HARNESS = os.path.join(VERIF, "harness")
NPROC = int(os.environ.get("VERIF_JOBS", "16"))

GOENV = dict(os.environ, GOFLAGS="-mod=mod", GOPROXY="off", GOSUMDB="off", GOTOOLCHAIN="local",
             GOCACHE=os.path.join(BUILD, "gocache"))

HARNESS_CMDS = ["codec", "session", "stream", "extract", "stress", "race", "timing", "lifecycle", "gen"]

TRUSTED_BASE = [
    "Coq 8.16.1 kernel (coqc; vm_compute used for finite-table facts; native_compute not used)",
    "hand-written Gallina model tied to /repo by differential correspondence on every run",
    "extraction: Require Extraction + ExtrOcamlBasic only (bool/option/unit/list/prod/sumbool -> OCaml's; nat, positive, N, Z stay inductive); OCaml 4.13.1",
    "coq/extract/driver.ml: string <-> list N conversion only",
    "Go harness (generators, case builder, projection printer, oracles) and this Python orchestrator",
    "oracle graph for strconv.ParseFloat and time.Parse/Format (not re-implemented; theorems quantify over all oracles)",
]


class BuildError(Exception):
    pass


def log(*a):
    print(*a, file=sys.stderr, flush=True)


def sh(cmd, cwd=None, env=None, timeout=1800, check=True, capture=True):
    p = subprocess.run(cmd, cwd=cwd, env=env, shell=isinstance(cmd, str), timeout=timeout,
                       stdout=subprocess.PIPE if capture else None,
                       stderr=subprocess.STDOUT if capture else None, text=True)
    if check and p.returncode != 0:
        raise BuildError("command failed (%s): %s\n%s" % (p.returncode, cmd, (p.stdout or "")[-4000:]))
    return p


def file_hash(paths):
    h = hashlib.sha256()
    for p in sorted(paths):
        h.update(p.encode())
        try:
            with open(p, "rb") as f:
                h.update(f.read())
        except OSError:
            h.update(b"<missing>")
    return h.hexdigest()


def write_if_changed(path, content):
    try:
        with open(path) as f:
            if f.read() == content:
                return False
    except OSError:
        pass
    os.makedirs(os.path.dirname(path), exist_ok=True)
    with open(path, "w") as f:
        f.write(content)
    return True


def coq_sources():
    out = []
    for root, _, files in os.walk(COQ):
        for fn in files:
            if fn.endswith(".v") or fn in ("_CoqProject", "driver.ml"):
                out.append(os.path.join(root, fn))
    return out


FORBIDDEN = re.compile(r"\b(Admitted|admit|Axiom|Axioms|Parameter|Parameters|Conjecture|Conjectures|"
                       r"bypass_check)\b|Unset\s+Guard|Unset\s+Positivity|Unset\s+Universe|type-in-type|"
                       r"impredicative-set|Admit\s+Obligations")


def grep_gate():
    """No Admitted/admit/Axiom/Parameter/... anywhere in the development."""
    bad = []
    for p in coq_sources():
        if not p.endswith(".v"):
            continue
        with open(p) as f:
            txt = f.read()
        # strip comments (non-nested is enough for our files; nested handled by loop)
        prev = None
        while prev != txt:
            prev = txt
            txt = re.sub(r"\(\*[^*(]*(?:\*(?!\))[^*(]*|\((?!\*)[^*(]*)*\*\)", " ", txt)
        for i, line in enumerate(txt.split("\n")):
            if FORBIDDEN.search(line):
                bad.append("%s:%d: %s" % (os.path.relpath(p, VERIF), i + 1, line.strip()))
    return bad


def regen():
    """Regenerate coq/gen/*.v from /repo's working tree (structural tables, schema)."""
    import importlib
    for modname in ("gen_schema", "gen_sites"):
        try:
            mod = importlib.import_module(modname)
        except ImportError:
            continue
        mod.regenerate()


def ensure_built(verbose=False):
    """Build everything from /repo's working tree and /verif's sources, once, under a lock."""
    os.makedirs(BIN, exist_ok=True)
    t0 = time.time()
    with open(os.path.join(BUILD, "lock"), "w") as lk:
        fcntl.flock(lk, fcntl.LOCK_EX)
        # 1. Go harness, always rebuilt from the working tree (Go's own cache makes this cheap)
        sum_src = os.path.join(REPO, "go.sum")
        if os.path.exists(sum_src):
            with open(sum_src) as f:
                write_if_changed(os.path.join(HARNESS, "go.sum"), f.read())
        for cmd in HARNESS_CMDS:
            args = ["go", "build", "-tags", "verif"]
            if cmd == "race":
                args.append("-race")
            sh(args + ["-o", os.path.join(BIN, cmd), "./cmd/" + cmd], cwd=HARNESS, env=GOENV, timeout=900)
        # the generator under test, built from the working tree
        sh(["go", "build", "-o", os.path.join(BIN, "fixgen"), "./cmd/fixgen"], cwd=REPO, env=GOENV, timeout=900)
        # 2. regenerated Coq inputs
        regen()
        # 3. Coq development (full .vo build)
        stamp = os.path.join(BUILD, "coq.stamp")
        h = file_hash(coq_sources())
        old = open(stamp).read() if os.path.exists(stamp) else ""
        if old != h or not os.path.exists(os.path.join(COQ, "extract", "model_driver")):
            sh("coq_makefile -f _CoqProject -o Makefile", cwd=COQ, timeout=120)
            sh("timeout 3000 make -j%d" % NPROC, cwd=COQ, timeout=3100)
            # 4. extraction + OCaml driver
            ex = os.path.join(COQ, "extract")
            sh("timeout 600 coqc -Q .. SF Extract.v", cwd=ex, timeout=700)
            sh("rm -f model_driver; ocamlfind ocamlopt -O3 -w -a model.mli model.ml driver.ml -o model_driver 2>&1 | grep -v 'options are only relevant' ; test -x model_driver",
               cwd=ex, timeout=600)
            with open(stamp, "w") as f:
                f.write(h)
        fcntl.flock(lk, fcntl.LOCK_UN)
    if verbose:
        log("build ok in %.1fs" % (time.time() - t0))


def _big_stack():
    import resource
    try:
        soft, hard = resource.getrlimit(resource.RLIMIT_STACK)
        resource.setrlimit(resource.RLIMIT_STACK, (hard, hard))
    except (ValueError, OSError):
        pass


def run_model(lines, family="codec", shards=None):
    """Run the extracted model on protocol lines; returns the answer lines."""
    if not lines:
        return []
    drv = os.path.join(COQ, "extract", "model_driver")
    shards = shards or min(NPROC, max(1, len(lines) // 50))
    chunks = [lines[i::shards] for i in range(shards)]
    procs = []
    for ch in chunks:
        # the extracted functions recurse over byte lists (a 100 KB message is a list of 100,000
        # elements): give the driver all the stack the system allows
        p = subprocess.Popen([drv, family], stdin=subprocess.PIPE, stdout=subprocess.PIPE, text=True,
                             preexec_fn=_big_stack)
        procs.append(p)
    # feed in threads to avoid pipe deadlocks
    import threading
    outs = [None] * shards

    def feed(i):
        o, _ = procs[i].communicate("\n".join(chunks[i]) + "\n")
        outs[i] = o.split("\n")
        if outs[i] and outs[i][-1] == "":
            outs[i].pop()

    ths = [threading.Thread(target=feed, args=(i,)) for i in range(shards)]
    for t in ths:
        t.start()
    for t in ths:
        t.join()
    res = [None] * len(lines)
    for i in range(shards):
        if len(outs[i]) != len(chunks[i]):
            raise BuildError("model driver returned %d answers for %d cases" % (len(outs[i]), len(chunks[i])))
        for j, a in enumerate(outs[i]):
            res[i + j * shards] = a
    return res


def proof_gate(pid):
    """Compile props/<pid>.v, parse Print Assumptions. Returns dict with ok, theorems, axioms, error."""
    path = os.path.join(COQ, "props", pid + ".v")
    res = {"ok": False, "theorems": [], "axioms": [], "error": None, "closed": 0}
    if not os.path.exists(path):
        res["error"] = "no property file " + path
        return res
    bad = grep_gate()
    if bad:
        res["error"] = "forbidden declarations: " + "; ".join(bad[:5])
        return res
    p = sh("timeout 600 coqc -Q . SF props/%s.v" % pid, cwd=COQ, check=False, timeout=700)
    out = p.stdout or ""
    if p.returncode != 0:
        res["error"] = "props/%s.v does not compile: %s" % (pid, out[-1500:])
        return res
    with open(path) as f:
        src = f.read()
    res["theorems"] = re.findall(r"^\s*Theorem\s+(\w+)", src, re.M)
    res["lemmas_used"] = re.findall(r"exact\s+\(?@?(\w+)", src)
    res["closed"] = out.count("Closed under the global context")
    ax = []
    for m in re.finditer(r"Axioms:\n((?:.+\n?)+?)(?:\n|$)", out):
        for line in m.group(1).split("\n"):
            mm = re.match(r"^(\S+)\s*:", line)
            if mm:
                ax.append(mm.group(1))
    res["axioms"] = sorted(set(ax))
    allowed = set(ALLOWED_AXIOMS)
    notallowed = [a for a in res["axioms"] if a not in allowed]
    n_print = len(re.findall(r"Print Assumptions", src))
    if notallowed:
        res["error"] = "theorem depends on axioms outside the stated trusted base: " + ", ".join(notallowed)
    elif n_print < len(res["theorems"]) or res["closed"] + len(re.findall(r"Axioms:", out)) < n_print:
        res["error"] = "Print Assumptions output missing for some theorem"
    else:
        res["ok"] = True
    # thorough tier: the compiled property file and everything it depends on is checked once more by
    # the independent checker, which also lists the axioms of every library loaded
    if res["ok"] and os.environ.get("VERIF_TIER_EFFECTIVE") == "thorough":
        res["coqchk"] = run_coqchk(pid)
        COQCHK[pid] = res["coqchk"]
        if res["coqchk"].get("completed") and not res["coqchk"].get("clean"):
            res["ok"] = False
            res["error"] = "coqchk: " + res["coqchk"].get("summary", "")[:600]
    return res


COQCHK = {}


def run_coqchk(pid):
    """coqchk -silent -o on props/<pid>.vo and its dependencies. A run that does not complete (time,
    memory, a concurrent rebuild) is recorded as such and is not a verdict: coqc's kernel has accepted
    the file already."""
    t = time.time()
    try:
        p = sh("timeout 2400 coqchk -silent -o -Q . SF SF.props.%s" % pid, cwd=COQ, check=False, timeout=2500)
    except Exception as e:  # noqa
        return {"completed": False, "note": "coqchk did not run: %s" % e}
    out = p.stdout or ""
    info = {"completed": False, "seconds": round(time.time() - t, 1),
            "cmd": "coqchk -silent -o -Q . SF SF.props.%s (in coq/)" % pid}
    m = re.search(r"CONTEXT SUMMARY\n=+\n(.*)", out, re.S)
    if p.returncode != 0 or not m:
        info["note"] = "coqchk did not complete (exit %d): %s" % (p.returncode, out[-300:])
        return info
    summ = m.group(1)
    info["completed"] = True
    fields = {}
    for key, label in (("axioms", "Axioms"), ("type_in_type", "Constants/Inductives relying on type-in-type"),
                       ("unsafe_fixpoints", "Constants/Inductives relying on unsafe (co)fixpoints"),
                       ("assumed_positivity", "Inductives whose positivity is assumed")):
        mm = re.search(r"\* " + re.escape(label) + r":\s*(.*?)(?=\n\s*\n\* |\Z)", summ, re.S)
        val = (mm.group(1).strip() if mm else "?")
        fields[key] = [] if val == "<none>" else [x.strip() for x in val.split("\n") if x.strip()]
    info.update(fields)
    info["clean"] = all(fields[k] == [] for k in fields)
    info["summary"] = " ".join(summ.split())
    return info


# axioms of the standard library that a theorem may depend on (named in DESIGN.md section 8)
ALLOWED_AXIOMS = []


def load_known():
    p = os.path.join(VERIF, "known_findings.json")
    with open(p) as f:
        return json.load(f)


def write_replay(pid, obj):
    os.makedirs(os.path.join(VERIF, "replays"), exist_ok=True)
    s = json.dumps(obj, indent=1, sort_keys=True)
    h = hashlib.sha256(s.encode()).hexdigest()[:12]
    path = os.path.join(VERIF, "replays", "%s-%s.json" % (pid, h))
    with open(path, "w") as f:
        f.write(s + "\n")
    return path


def write_evidence(pid, tier, seed, coverage, wall, violations, assumptions):
    os.makedirs(os.path.join(VERIF, "evidence"), exist_ok=True)
    if pid in COQCHK and isinstance(coverage, dict):
        coverage = dict(coverage, coqchk=COQCHK[pid])
    ev = {
        "property_id": pid,
        "tier": tier,
        "seed": seed,
        "level": "proof",
        "coverage": coverage,
        "assumptions": assumptions,
        "wall_s": round(wall, 2),
        "violations": violations,
    }
    with open(os.path.join(VERIF, "evidence", pid + ".json"), "w") as f:
        json.dump(ev, f, indent=1, sort_keys=True)
        f.write("\n")
    return ev


class Verdict:
    """Collects what a check found and prints the interface lines."""

    def __init__(self, pid):
        self.pid = pid
        self.violations = []   # (replay_obj, suffix)
        self.known = []        # strings

    def violation(self, replay_obj, no_input=False):
        self.violations.append((replay_obj, no_input))

    def known_finding(self, what):
        if what not in self.known:
            self.known.append(what)

    def finish(self):
        for k in self.known:
            print("KNOWN-FINDING: property=%s %s" % (self.pid, k))
        seen = 0
        for obj, no_input in self.violations[:5]:
            path = write_replay(self.pid, obj)
            print("VIOLATION property=%s replay=%s%s" % (self.pid, path, " no-failing-input-found" if no_input else ""))
            seen += 1
        sys.stdout.flush()
        return 1 if self.violations else 0
