"""C12 (the generator is a faithful, deterministic translation of the schema): theorems about the
Coq model of the generator (props/C12.v), tied to the real cmd/fixgen by translation validation:
for every explored schema the declarations read back from the generated Go files must be exactly
the ones the extracted model computes from the same schema; plus compile + XML-derived driver,
determinism, independence of the output directory, and the shipped reference package."""
import json
import os
import re
import shutil
import subprocess
import time

import common
from common import BIN, BUILD, Verdict, GOENV, REPO

GENMOD = os.path.join(BUILD, "genmod")
FLOW_MESSAGES = ["Logon", "Logout", "Heartbeat", "TestRequest", "ResendRequest", "SequenceReset", "Reject",
                 "ExecutionReport", "NewOrderSingle", "MarketDataRequest", "OrderCancelRequest"]


def unhex(tok):
    if tok.startswith("x"):
        try:
            return bytes.fromhex(tok[1:]).decode("latin-1")
        except ValueError:
            return tok
    return tok


def model_records(line):
    """The model's answer in the vocabulary of harness/cmd/gen/summary.go."""
    parts = line.strip().split(" ; ")
    head = parts[0]
    if head != "OK":
        return head, [], []
    out, shadows = [], []
    for p in parts[1:]:
        t = [unhex(x) for x in p.split(" ")]
        k = t[0]
        if k == "BEGIN":
            out.append("BEGIN " + t[1])
        elif k in ("CONST", "ENUM"):
            out.append("%s %s %s" % (k, t[1], t[2] if len(t) > 2 else ""))
        elif k == "STRUCT":
            T = t[1]
            if t[2] == "message":
                out.append("KIND %s *fix.Message" % T)
                out.append("NEWMSG %s FieldBeginString FieldBodyLength FieldCheckSum FieldMsgType beginString MsgType%s" % (T, T))
                if T in FLOW_MESSAGES:
                    out.append("BUILDER %s New messages.%sBuilder" % (T, T))
                    out.append("BUILDER %s Build messages.%sBuilder" % (T, T))
            else:
                out.append("KIND %s *fix.Component" % T)
                if T == "Header":
                    out.append("BUILDER Header New messages.HeaderBuilder")
                if T == "Trailer":
                    out.append("BUILDER Trailer New messages.TrailerBuilder")
        elif k in ("ITEM", "GITEM"):
            out.append(" ".join(t))
        elif k == "ACC":
            out.append("ACC %s %s %s %s %s %s" % (t[1], t[2], t[3], t[4], t[5], t[6]))
        elif k == "ARG":
            out.append("ARG %s %s %s %s" % (t[1], t[2], t[3], t[4]))
        elif k == "CALL":
            out.append("CALL %s %s %s %s" % (t[1], t[2], t[3], t[4]))
        elif k == "FLOW":
            out.append("FLOW %s %s %s %s" % (t[1], t[2], t[3], t[4]))
        elif k == "GROUP":
            out.append("KIND %s *fix.Group" % t[1])
            out.append("GROUPENTRY %s %s" % (t[1], t[2]))
            out.append("GROUPTAG %s %s" % (t[1], t[3]))
        elif k == "SHADOW":
            shadows.append(t[1])
        else:
            out.append("MODEL? " + " ".join(t))
    return head, sorted(set(out)), shadows


def schema_texts(r):
    """The failing input itself: the schema and type-mapping files the generator was run on."""
    out = {}
    sx = r.get("schema")
    if sx and os.path.exists(sx):
        for key, path in (("schema_xml", sx), ("types_xml", os.path.join(os.path.dirname(sx), "types.xml"))):
            try:
                with open(path) as f:
                    txt = f.read()
                out[key] = txt if len(txt) < 400000 else txt[:400000] + "\n<!-- truncated -->"
            except OSError:
                pass
    return out


def impl_records(impl):
    parts = impl.split(" ; ")
    if parts[0] != "ok":
        return "FAIL", []
    return "OK", sorted(set(p for p in parts[1:] if not p.startswith("PKG ")))


def run_gen(mode, seed, n, big=False):
    os.makedirs(GENMOD, exist_ok=True)
    with open(os.path.join(GENMOD, "go.mod"), "w") as f:
        f.write("module genmod\n\ngo 1.18\n\nrequire github.com/b2broker/simplefix-go v0.0.0\n\n"
                "replace github.com/b2broker/simplefix-go => %s\n" % REPO)
    shutil.copy(os.path.join(REPO, "go.sum"), os.path.join(GENMOD, "go.sum"))
    cmd = [os.path.join(BIN, "gen"), "-fixgen", os.path.join(BIN, "fixgen"), "-work", GENMOD, "-mode", mode,
           "-seed", str(seed), "-n", str(n)] + (["-big"] if big else [])
    p = subprocess.run(cmd, stdout=subprocess.PIPE, stderr=subprocess.PIPE, text=True, timeout=1800)
    recs = [json.loads(l) for l in p.stdout.split("\n") if l.startswith("{")]
    return recs, p.stderr[-2000:]


def run_drivers(dirs, timeout=1500):
    """go test in the scratch module: compiles every generated package against /repo and runs the XML-derived drivers."""
    if not dirs:
        return {}, ""
    pkgs = ["./" + os.path.relpath(d, GENMOD) for d in dirs]
    env = dict(os.environ, **GOENV)
    p = subprocess.run(["go", "test", "-vet=off", "-count=1"] + pkgs, cwd=GENMOD, env=env,
                       stdout=subprocess.PIPE, stderr=subprocess.STDOUT, text=True, timeout=timeout)
    res = {}
    for d, pk in zip(dirs, pkgs):
        name = "genmod/" + pk[2:]
        m = re.search(r"^(ok|FAIL|---)\s+" + re.escape(name) + r"\b.*$", p.stdout, re.M)
        if m and m.group(1) == "ok":
            res[d] = "ok"
        else:
            # the lines of this package's failure
            blk = [l for l in p.stdout.split("\n") if name in l or l.startswith(("    ", "\t", "--- FAIL", "# "))]
            res[d] = "fail: " + " / ".join(x.strip() for x in blk[:6])[:1200]
    return res, p.stdout[-3000:]


def cleanup():
    if os.path.isdir(GENMOD):
        for e in os.listdir(GENMOD):
            pth = os.path.join(GENMOD, e)
            if os.path.isdir(pth):
                shutil.rmtree(pth, ignore_errors=True)


def check_C12(pid, tier, seed, t0):
    v = Verdict(pid)
    gate = common.proof_gate(pid)
    known = common.load_known()
    cleanup()
    recs, err = run_gen("shipped", seed, 0)
    n_derived = 40 if tier == "quick" else 400
    drecs, err2 = run_gen("derived", seed, n_derived, big=(tier != "quick"))
    rrecs, err3 = run_gen("reference", seed, 0)
    allrecs = recs + drecs
    if len(recs) < 3 or len(drecs) < n_derived or len(rrecs) < 1:
        v.violation({"property": pid, "kind": "harness", "what": "the generator harness did not produce all its records",
                     "stderr": (err + err2 + err3)[-1500:]}, no_input=True)
    answers = common.run_model([r["case"] for r in allrecs], "gen", shards=min(common.NPROC, max(1, len(allrecs))))
    mismatches, model_fail, impl_fail = 0, 0, 0
    drive_dirs = []
    tagdist = {}
    shadow_seen = {}
    for r, ans in zip(allrecs, answers):
        for t in r.get("tags", []):
            t = t.split(":")[0] if t.startswith(("generator-message", "removed-duplicate")) else t
            tagdist[t] = tagdist.get(t, 0) + 1
        mhead, mrecs, mshadows = model_records(ans)
        ihead, irecs = impl_records(r["impl"])
        mclass = "OK" if mhead == "OK" else "FAIL"
        if mclass == "FAIL":
            model_fail += 1
        if ihead == "FAIL":
            impl_fail += 1
        base = {"property": pid, "schema_tags": r.get("tags"), "case": r["case"][:4000] + ("..." if len(r["case"]) > 4000 else ""),
                "replay": "write schema_xml / types_xml to files and run: fixgen -o <dir>/fixpkg -s schema.xml -t types.xml"}
        base.update(schema_texts(r))
        if mhead in ("BADCASE", "FUEL"):
            v.violation(dict(base, kind="harness", what="the model could not read the case line (%s)" % mhead), no_input=True)
            continue
        if mclass != ihead:
            mismatches += 1
            v.violation(dict(base, kind="correspondence", what="model says %s (%s), cmd/fixgen says %s on the same schema" % (mclass, mhead, ihead),
                             generator_message=[t for t in r.get("tags", []) if t.startswith("generator-message")]))
            continue
        if mclass == "OK":
            ms, is_ = set(mrecs), set(irecs)
            if ms != is_:
                mismatches += 1
                only_m = sorted(ms - is_)[:15]
                only_i = sorted(is_ - ms)[:15]
                v.violation(dict(base, kind="correspondence",
                                 what="the declarations cmd/fixgen emitted differ from what the schema says (model): "
                                      "schema-only %s ; emitted-only %s" % (only_m[:4], only_i[:4]),
                                 schema_says_only=only_m, emitted_only=only_i))
            # D16: a group whose generated type was built from another occurrence of the same name
            for s in (r["oracle"].get("shadowed") or "").split("|"):
                if s:
                    shadow_seen.setdefault(s, r)
            if set(mshadows) != set(x.split(" in ")[0] for x in (r["oracle"].get("shadowed") or "").split("|") if x):
                v.violation(dict(base, kind="correspondence", what="model and harness disagree on the shadowed groups: %s vs %s"
                                 % (sorted(set(mshadows)), r["oracle"].get("shadowed"))), no_input=True)
            if os.path.exists(os.path.join(r.get("dir") or "/nonexistent", "zz_driver_test.go")):
                big_pkg = r["size"] > 600
                if not big_pkg or tier != "quick":
                    drive_dirs.append(r["dir"])
        o = r["oracle"].get("C12", "ok")
        if o.startswith("fail"):
            v.violation(dict(base, kind="generator-behaviour", what=o[6:]))
    for r in rrecs:
        o = r["oracle"].get("C12", "ok")
        if o.startswith("fail"):
            v.violation({"property": pid, "kind": "reference-package", "what": o[6:], "case": r["case"]})
    # D16: occurrences of a group whose generated type was built from another occurrence of the same
    # name; the listed (group, owner) pairs are known findings, anything else is reported
    listed = [f for f in known.get("findings", []) if f.get("property") == pid]
    known_groups = {}
    derived_d16 = 0
    for s, r in sorted(shadow_seen.items()):
        g, owner = s.split(" in ", 1)
        hit = [f for f in listed if f.get("group_name") == g and owner in f.get("owners", [])]
        if g.startswith("NoZzTwin"):
            derived_d16 += 1   # an instance of D16 the derivation built on purpose (two components, one group name)
            continue
        if hit:
            known_groups.setdefault(g, set()).add(owner)
        else:
            v.violation({"property": pid, "kind": "fidelity", **schema_texts(r), "schema_tags": r.get("tags"),
                         "what": "the members of group %s are not the ones of its generated type %sGrp/%sEntry: one Go type per "
                                 "group name, built from the last occurrence in the schema" % (s, g.replace("No", "", 1), g.replace("No", "", 1))})
    for g, owners in sorted(known_groups.items()):
        v.known_finding("D16 group %s: the generated type is built from the last occurrence of the name; %d listed occurrence(s) "
                        "with other members (%s%s) do not get their schema members" %
                        (g, len(owners), ", ".join(sorted(owners)[:3]), ", ..." if len(owners) > 3 else ""))
    # compiling and driving a generated package costs seconds (the 400-type one about two minutes):
    # every shipped schema's package, and of the derived ones as many as the tier affords
    max_driven = 40 if tier == "quick" else 90
    if len(drive_dirs) > max_driven:
        shipped_dirs = [d for d in drive_dirs if "derived" not in os.path.basename(os.path.dirname(d))]
        derived_dirs = [d for d in drive_dirs if d not in shipped_dirs]
        step = max(1, len(derived_dirs) // max(1, max_driven - len(shipped_dirs)))
        drive_dirs = shipped_dirs + derived_dirs[::step][:max_driven - len(shipped_dirs)]
    try:
        dres, dout = run_drivers(drive_dirs, timeout=2400)
    except subprocess.TimeoutExpired:
        dres, dout = {}, ""
        v.violation({"property": pid, "kind": "harness",
                     "what": "compiling and driving %d generated packages did not finish within 40 minutes" % len(drive_dirs)},
                    no_input=True)
    for d, res in dres.items():
        if res != "ok":
            r = [x for x in allrecs if x.get("dir") == d][0]
            v.violation({"property": pid, "kind": "xml-derived-driver", "schema_tags": r.get("tags"), **schema_texts(r),
                         "what": "the package generated from this schema does not compile against the working tree or its "
                                 "XML-derived driver fails: " + res[6:], "package_dir": d,
                         "replay_cmd": "cd %s && go test -vet=off -count=1 ./%s" % (GENMOD, os.path.relpath(d, GENMOD))})
    if not gate["ok"]:
        v.violation({"property": pid, "kind": "proof-obligation", "what": "props/C12.v no longer checks", "error": gate.get("error")},
                    no_input=not v.violations)
    nthm = len(gate.get("theorems") or []) or 1
    cov = {
        "obligations": nthm, "discharged": nthm if gate["ok"] else 0,
        "checker_cmd": "coqc -Q coq SF coq/props/C12.v",
        "trusted_base": common.TRUSTED_BASE + [
            "harness/cmd/gen: XML reader (encoding/xml, own structs), go/parser read-back of the generated files (summary.go), "
            "the XML-derived driver (driver.go)",
            "lib/p_gen.py model_records: renaming of the model's records into the read-back vocabulary",
            "text/template and go/format are part of the generator under test, not modelled: their effect is observed through the read-back"],
        "theorems": gate.get("theorems"), "axioms": gate.get("axioms"),
        "schemas": len(allrecs), "schemas_generator_accepts": len(allrecs) - impl_fail, "schemas_rejected": impl_fail,
        "declaration_records_compared": sum(len(impl_records(r["impl"])[1]) for r in allrecs),
        "packages_compiled_and_driven": len(drive_dirs),
        "derived_schemas_with_two_definitions_of_one_group_name": derived_d16,
        "evaluations": len(allrecs) + len(rrecs) + len(drive_dirs),
        "distinct_nontrivial": len(set(r["case"] for r in allrecs if impl_records(r["impl"])[0] == "OK")),
        "rule": "one evaluation per schema run through cmd/fixgen and the model, per driven package and per reference comparison; "
                "non-trivial = distinct schemas the generator accepted (their full declaration sets were compared)",
        "traces_validated_against_impl": len(allrecs), "mismatches": mismatches,
        "derivation_distribution": tagdist,
        "samples": [{"tags": r.get("tags"), "impl": r["impl"][:200]} for r in allrecs[:2]] + [{"reference": rr["impl"]} for rr in rrecs],
    }
    common.write_evidence(pid, tier, seed, cov, time.time() - t0, len(v.violations),
                          ["the schema is well-formed XML of the shape generator/xml.go reads (header, trailer, messages, components, fields)",
                           "declaration-level correspondence: bodies of the fixed template parts (Header(), Trailer(), Entries(), New()) are "
                           "covered by compilation and the driver, not by the model",
                           "quick tier drives the packages of the small schemas; the 400-type package is compiled and driven in the thorough tier"])
    rc = v.finish()
    cleanup()
    return rc
