"""Regenerates coq/gen/Sites.v from /repo's working tree with the structural extractor."""
import os
import subprocess

import common


def regenerate():
    exe = os.path.join(common.BIN, "extract")
    out = os.path.join(common.COQ, "gen", "Sites.v")
    p = subprocess.run([exe, "-repo", common.REPO, "-out", out], stdout=subprocess.PIPE, stderr=subprocess.STDOUT, text=True)
    if p.returncode != 0:
        raise common.BuildError("structural extractor failed: " + p.stdout[-2000:])
