"""C13 (nothing stays blocked after a connection ends): the blocking-site table regenerated from
the source and decided in Coq (props/C13.v), plus the fault-injection driver (harness/cmd/lifecycle)
that runs real sessions, injects every termination cause at every phase and buffer size, and looks
at the serving call, the transport, the notifications, later sends and the goroutine profile."""
import json
import os
import re
import subprocess
import time

import common
import p_conc
from common import BIN, Verdict

N_SCEN = 2 * 6 * 4 * 3 + 4 * 3   # roles x causes x phases x buffer sizes, plus the handler-API scenarios
PROCS = 16


def run_driver(seed, bound="8s"):
    procs = []
    per = (N_SCEN + PROCS - 1) // PROCS
    for i in range(PROCS):
        procs.append(subprocess.Popen(
            [os.path.join(BIN, "lifecycle"), "-start", str(i), "-stride", str(PROCS), "-n", str(per),
             "-seed", str(seed), "-bound", bound],
            stdout=subprocess.PIPE, stderr=subprocess.DEVNULL, text=True))
    recs = []
    for p in procs:
        try:
            out, _ = p.communicate(timeout=900)
        except subprocess.TimeoutExpired:
            p.kill()
            out, _ = p.communicate()
        for line in (out or "").split("\n"):
            if line.startswith("{"):
                recs.append(json.loads(line))
    return recs


def table():
    out = p_conc.coq_eval(
        "From SF Require Import Lifecycle.\nOpen Scope string_scope.\n"
        "Definition S1 := Eval vm_compute in stuck_sites site_names site_funcs. Print S1.\n"
        "Definition W1 := Eval vm_compute in broken_wiring site_names site_funcs. Print W1.\n"
        "Definition H1 := Eval vm_compute in handoffs_cancellable site_names site_funcs. Print H1.\n"
        "Definition N1 := Eval vm_compute in List.length (all_sites site_names site_funcs). Print N1.\n"
        "Definition N2 := Eval vm_compute in List.length (wiring site_names site_funcs). Print N2.\n")
    flat = out.replace("\n", " ")
    def section(name, nxt):
        m = re.search(name + r" =(.*?)(?=\s" + nxt + r" =|$)", flat)
        return m.group(1) if m else ""
    stuck = re.findall(r'\("([^"]+)",\s*(\d+)(?:%nat)?,\s*"([^"]+)"\)', section("S1", "W1"))
    wiring = re.findall(r'"([^"]+)"', section("W1", "H1").split(": list")[0])
    handoffs = "true" in section("H1", "N1")
    nums = [int(x) for x in re.findall(r"N[12] = (\d+)", flat)]
    return stuck, wiring, handoffs, nums, out


def check_C13(pid, tier, seed, t0):
    v = Verdict(pid)
    gate = common.proof_gate(pid)
    stuck, wiring, handoffs, nums, raw = table()
    seeds = [seed] if tier == "quick" else [seed, seed + 1, seed + 2, seed + 3]
    recs = []
    for sd in seeds:
        recs += run_driver(sd)
    fails = [r for r in recs if r["oracle"].get("C13", "ok").startswith("fail")]
    skipped = [r for r in recs if r["oracle"].get("C13", "").startswith("skip")]
    # one report per distinct failure signature (what is parked where), the first scenario as replay
    sigs = {}
    for r in fails:
        sig = re.sub(r"goroutine \d+", "goroutine", r["oracle"]["C13"])
        sig = re.sub(r"^fail: \d+ ", "fail: ", sig)
        sigs.setdefault(sig, []).append(r)
    for sig, rs in list(sigs.items())[:4]:
        v.violation({"property": pid, "kind": "fault-injection",
                     "what": rs[0]["oracle"]["C13"][6:],
                     "scenario": rs[0]["case"],
                     "replay_cmd": ".build/bin/lifecycle -start %s -n 1 -seed %s" % (
                         re.search(r"id=(\d+)", rs[0]["case"]).group(1), re.search(r"seed=(\d+)", rs[0]["case"]).group(1)),
                     "also_failing": [x["case"] for x in rs[1:12]],
                     "table_says": "ok" if (gate["ok"] and not stuck and not wiring and handoffs) else
                                   {"sites_without_release": stuck, "broken_wiring": wiring, "handoffs_cancellable": handoffs}})
    table_ok = gate["ok"] and not stuck and not wiring and handoffs
    if not fails and not table_ok:
        v.violation({"property": pid, "kind": "proof-obligation",
                     "what": "theorem C13_table_nothing_blocks (props/C13.v) no longer checks on the regenerated table",
                     "sites_without_releasing_alternative": [{"func": s[0], "line": int(s[1]), "op": s[2]} for s in stuck],
                     "broken_wiring": wiring, "handoffs_cancellable": handoffs,
                     "error": gate.get("error"),
                     "searched": "%d fault-injection scenarios (seeds %s), none failed" % (len(recs), seeds)}, no_input=True)
    if len(recs) < N_SCEN * len(seeds):
        v.violation({"property": pid, "kind": "harness",
                     "what": "the fault-injection driver produced %d of %d scenario records (a driver process hung or died)"
                             % (len(recs), N_SCEN * len(seeds))}, no_input=True)
    dist = {}
    for r in recs:
        for t in r.get("tags", []):
            dist[t] = dist.get(t, 0) + 1
    nthm = len(gate.get("theorems") or []) or 5
    cov = {
        "obligations": nthm, "discharged": nthm if gate["ok"] else 0,
        "checker_cmd": "coqc -Q coq SF coq/props/C13.v (gen/Sites.v regenerated from /repo by harness/cmd/extract; vm_compute)",
        "trusted_base": common.TRUSTED_BASE + [
            "structural extractor harness/cmd/extract (go/ast): completeness of the send/receive/select/defer/call events",
            "Lifecycle.allowed: three hand-offs accepted without a releasing alternative, with the stated reasons",
            "the script model of Lifecycle.v Part 2: code between blocking operations terminates; a member woken by its "
            "cancellation alternative returns",
            "Go runtime goroutine profile (runtime.Stack) as the observation of leftover goroutines"],
        "theorems": gate.get("theorems"), "axioms": gate.get("axioms"),
        "blocking_sites_in_table": nums[0] if nums else 0,
        "wiring_facts_checked": nums[1] if len(nums) > 1 else 0,
        "sites_without_release": len(stuck), "broken_wiring": len(wiring),
        "evaluations": len(recs) + (nums[0] if nums else 0),
        "distinct_nontrivial": len(set(re.sub(r" seed=\d+", "", r["case"]) for r in recs if r not in skipped)),
        "rule": "one evaluation per fault-injection scenario (role x cause x phase x buffer size x seed) plus one per blocking "
                "site of the regenerated table; non-trivial = a scenario whose session was set up and the fault injected",
        "traces_validated_against_impl": len(recs) - len(skipped),
        "scenario_distribution": dist,
        "failing_scenarios": len(fails),
        "samples": [{"case": r["case"], "verdict": r["oracle"].get("C13")} for r in recs[:3]],
    }
    common.write_evidence(pid, tier, seed, cov, time.time() - t0, len(v.violations),
                          ["in-memory transport (net.Pipe): resets and half-open TCP states are represented by close and by a peer "
                           "that stops reading",
                           "fault placement: four phases with seed-shifted timing inside the traffic phase, not every byte offset",
                           "partial: the theorem is about the extracted blocking structure and the script model; whether a woken "
                           "goroutine actually returns is observed by the driver, not proved"])
    return v.finish()
